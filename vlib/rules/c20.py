"""C20 - threaded engine: FIFO paced sends, first-match dispatch, bounded handler life.

R1 FIFO under the lock; R2 throttle; R3 first match; R4 exception isolation; R5 retry
life-cycle; R6 removed once answered (sibling cross-check); R7 handshake chain.
NOT decided: pacing in seconds, real-thread schedules, 'exactly N retransmissions' as
counted events, handshake under loss.
"""
from __future__ import annotations

import ast

from ..cfg import cfg_of
from ..core import AnalysisError
from ..facts import loc
from ..pathrules import calls_named, lexically_inside_with, loop_heads
from ..src import Repo, call_name, receiver, walk_no_nested

SOCK = "GeckoUdpSocket"
BASE = "GeckoUdpProtocolHandler"


def in_lock(fi, node):
    return lexically_inside_with(fi.node, node, lambda e, w: ast.unparse(e) == "self._lock")


def final_connect_model(ctx, repo, rule):
    """The last link of the blocking handshake by interpretation: a GeckoSpa built by its own constructor (threads, locks
    and the OS socket are stand-ins) with a model structure.  One engine pass (_loop_func) before the first complete
    block builds nothing; the first pass after it builds the accessors from the pair of table classes the FILES step
    stored, tells the facade (on_connected) once and makes is_connected read True; later passes do nothing more."""
    from ..absint import Interp, Native, Obj, PyRaise, Undecided
    from .c16 import build_instance
    it = Interp(repo, max_depth=12)
    spa = build_instance(repo, it, "GeckoSpa")
    built, told = [], []

    class _Any(dict):
        def __missing__(self, k):
            return Obj(None, {"value": 1, "tag": k}, name=f"acc<{k}>")

        def __contains__(self, k):
            return True
    struct = Obj(None, {"had_at_least_one_block": False, "accessors": _Any(), "build_accessors": Native(lambda a, k: built.append(tuple(a)), "build_accessors")}, name="struct")
    cfg_c, log_c = Obj(None, name="config-table"), Obj(None, name="log-table")
    it.setattr(spa, "struct", struct)
    it.setattr(spa, "new_config_class", cfg_c)
    it.setattr(spa, "new_log_class", log_c)
    it.setattr(spa, "new_pack_class", Obj(None, {"type": 7}, name="pack-table"))
    it.setattr(spa, "on_connected", Native(lambda a, k: told.append(a[0] if a else None), "on_connected"))
    it.attr_hook = lambda _i, b_, a_: (True if (b_ is spa and a_ == "isopen") else NotImplemented)
    it.call_hook = lambda _i, node, callee, a_, k_: (100.0 if getattr(callee, "name", "") == "time.monotonic" else NotImplemented)
    for k_, v_ in list(spa.attrs.items()):
        if "started" in k_ and v_ is None:
            spa.attrs[k_] = 99.0     # the connection attempt began a second ago (is_connected measures the handshake's age)
    lf = repo.func("GeckoSpa._loop_func")

    def one_pass():
        try:
            it.steps = 0
            it.call(lf, spa, [])
            return None
        except PyRaise as e:
            return e.what
        except Undecided as e:
            raise AnalysisError(f"{lf.qual} on the model connection: {e}")

    def connected():
        try:
            return it.getattr(spa, "is_connected")
        except (PyRaise, Undecided) as e:
            return f"<{e}>"
    r0 = one_pass()
    ctx.ob(rule, "GeckoSpa._loop_func::nothing-before-the-first-block", r0 is None and not built and not told and connected() is False,
           f"an engine pass before the first complete status block: outcome {r0!r}, accessors built {len(built)} time(s), facade told {len(told)} time(s), is_connected {connected()!r}", lf.loc)
    # ... also when the handshake has been going on for a long time (every step inside its own retry budget, the whole
    # longer than any connection timeout): the engine thread calls _loop_func unprotected - what it raises ends the thread,
    # and with it every send, receive, retry and clean-up
    started = {k_: v_ for k_, v_ in spa.attrs.items() if "started" in k_ and v_ == 99.0}
    for k_ in started:
        spa.attrs[k_] = 100.0 - 100000.0
    r_slow = one_pass()
    ctx.ob(rule, "GeckoSpa._loop_func::survives-a-slow-handshake", r_slow is None and not built and not told,
           f"an engine pass before the first complete block of a handshake that began 100000 s ago: outcome {r_slow!r} (accessors built {len(built)}, facade told {len(told)}) - "
           f"the per-pass hook runs on the engine thread outside any try: an exception there stops the engine for good", lf.loc)
    for k_, v_ in started.items():
        spa.attrs[k_] = v_
    struct.attrs["had_at_least_one_block"] = True
    r1 = one_pass()
    ok1 = r1 is None and len(built) == 1 and len(built[0]) == 2 and built[0][0] is cfg_c and built[0][1] is log_c and told == [spa] and connected() is True
    ctx.ob(rule, "GeckoSpa._loop_func->_final_connect", ok1,
           f"the first engine pass after the first complete block: outcome {r1!r}, build_accessors calls {[[getattr(x, 'name', x) for x in b] for b in built]}, facade told {len(told)} time(s), is_connected {connected()!r} - "
           f"expected the accessors built once from the stored (config, log) table pair, on_connected(spa) once, is_connected True", lf.loc,
           sample={"rule": rule, "built": len(built), "told": len(told)})
    r2 = one_pass()
    ctx.ob(rule, "GeckoSpa._final_connect::completes", r2 is None and len(built) == 1 and len(told) == 1 and connected() is True,
           f"a later engine pass: outcome {r2!r}, accessors built {len(built)} time(s) in all, facade told {len(told)} time(s): the connection must be finished exactly once", lf.loc)


def check(ctx):
    repo = Repo()
    ctx.rule("R1", "FIFO: the send queue's only producer appends at the tail, its only consumer removes index 0, both under the lock")
    ctx.rule("R2", "throttle: the early return on `now - last_send < 1/RATE` dominates the send; at most one sendto per call (no loop); last_send updated after the sendto on the success path")
    ctx.rule("R3", "first match: the selection loop iterates the handler list in registration order, assigns on can_handle and breaks immediately; handle then handled are called on that handler only")
    ctx.rule("R4", "exception isolation: handle/handled and send_bytes/sendto are inside try with an `except Exception` that does not re-raise; the thread loop has no other exit than the closed flag")
    ctx.rule("R5", "retry life-cycle: retry() decrements exactly once, refuses at 0, re-queues to last_destination; loop() consults retry only after a timeout and calls on_retry_failed only when retry refused; the default failure handler flags removal; _cleanup_handlers removes exactly the flagged handlers")
    ctx.rule("R6", "removed once answered: the response branch of every request-capable handler sets _should_remove_handler (tabled exceptions: ping, status block)")
    ctx.rule("R8", "no transmission after the answer: in the engine pass that dispatches the answer the handler's loop() cannot retry - because handled() restarts the timeout on every path, or loop() skips flagged handlers, or the clean-up precedes loop()")
    ctx.rule("R7", "handshake chain: start_connect -> _on_version_received -> _on_channel_received -> _on_config_received -> retry_request -> _final_connect exists and every step both registers and queues its request handler")

    ctx.rule("R10", "the handshake ends with an IDENTICAL status block: every segment passes through the packet framing on both sides; a frame built by send_bytes and handed to the packet layer's handle() gives back exactly the payload, for any payload bytes - trailing blanks, tabs and newlines included (C04's symbolic frame round trip borrowed)")
    from .c04 import framing as _framing20
    _framing20(ctx.borrowed("R10", "C04", only=("R4",), key_contains="frame-round-trip::payload"), repo)
    ctx.rule("R9", "loss is visible to the client: when the simulator itself drops segments of a status-block answer the survivors keep their index, next and bytes (a gap the blocking client answers by asking again) - renumbered survivors would complete the handshake with a shortened, shifted block (C01.R6's unreliable-simulator scenario borrowed)")
    from .c01 import simulator_chain_concrete as _scc
    _scc(ctx.borrowed("R9", "C01", key_contains="dropped-segments-leave-a-gap"), repo, repo.method("GeckoSimulator", "_on_status_block"))
    # ---- R1-R3 (+ part of R4) by interpretation: vlib/enginemodel.py -------------------------------------------
    from ..enginemodel import engine_obligations
    engine_obligations(ctx, repo, "R1", "R2", "R3", "R4")
    # lock discipline of the two queues (lexical): every mutation of the send queue / handler list inside `with self._lock`
    n_mut = 0
    for fi in repo.all_methods(SOCK).values():
        if fi.name == "__init__":
            continue
        for n in walk_no_nested(fi.node):
            if isinstance(n, ast.Call) and receiver(n) in ("self._send_handlers", "self._receive_handlers") and call_name(n) in ("append", "insert", "extend", "pop", "remove", "clear"):
                n_mut += 1
                ctx.ob("R1", f"{fi.qual}::{receiver(n).split('.')[-1]}.{call_name(n)}::under-lock", in_lock(fi, n), f"{fi.qual}: `{ast.unparse(n)}` outside `with self._lock`", loc(fi, n))
    if not n_mut:
        ctx.note("no direct `self._send_handlers / _receive_handlers .<mutator>(...)` call in the socket class (the queues are reached through a helper): lock discipline is decided by the engine model's lock scenarios only")
    ps = repo.own_method(SOCK, "_process_send_requests")
    dr = repo.own_method(SOCK, "dispatch_recevied_data")

    # ---- R4 exception isolation -----------------------------------------------------------------------
    def isolated(fi, call):
        for t in walk_no_nested(fi.node):
            if isinstance(t, ast.Try) and any(call in list(ast.walk(s)) for s in t.body):
                for h in t.handlers:
                    tn = ast.unparse(h.type) if h.type is not None else ""
                    if (h.type is None or tn in ("Exception", "BaseException")) and not any(isinstance(x, ast.Raise) for s in h.body for x in ast.walk(s)):
                        return True
        return False

    for fi, names in ((dr, ("handle", "handled")), (ps, ("sendto",))):
        for n in walk_no_nested(fi.node):
            if isinstance(n, ast.Call) and call_name(n) in names and (receiver(n) or "") not in ("self",):
                ctx.ob("R4", f"{fi.qual}::{call_name(n)}::isolated", isolated(fi, n),
                       f"{fi.qual}: an exception from `{ast.unparse(n.func)}` is not contained by `except Exception`: it would kill the engine thread", loc(fi, n))
    sb = [n for n in walk_no_nested(ps.node) if isinstance(n, ast.Attribute) and n.attr == "send_bytes"]
    ctx.ob("R4", f"{ps.qual}::send_bytes::isolated", bool(sb) and all(any(isinstance(t, ast.Try) and any(x in list(ast.walk(s)) for s in t.body) for t in walk_no_nested(ps.node)) for x in sb),
           f"{ps.qual}: evaluating handler.send_bytes is outside the try", ps.loc)
    tf = repo.own_method(SOCK, "_thread_func")
    gt = cfg_of(tf)
    hd_ = [h for h in loop_heads(gt) if h.kind == "test"]
    ok = len(hd_) == 1 and hd_[0].text() == "self.isopen" and not any(isinstance(n.ast, (ast.Break, ast.Return)) for n in gt.loop_body(hd_[0]))
    ctx.ob("R4", f"{tf.qual}::runs-until-closed", ok, f"{tf.qual}: the engine loop has an exit other than the closed flag", tf.loc)
    order = [call_name(c) for n in sorted(gt.stmt_nodes(), key=lambda x: x.lineno) for c in n.calls() if receiver(c) in ("self", "handler")]
    want = ["_process_send_requests", "_process_received_data", "loop", "_cleanup_handlers", "_loop_func"]
    ctx.ob("R5", f"{tf.qual}::phases", [o for o in order if o in want] == want, f"{tf.qual}: engine phases are {order}, expected {want}", tf.loc)

    # ---- R5 retry life-cycle: by interpretation (vlib/handlermodel.py) --------------------------------------
    from ..handlermodel import builder_keywords, loop_obligations, retry_obligations
    retry_obligations(ctx, repo, "R5")
    loop_obligations(ctx, repo, "R5")
    lpf = repo.own_method(BASE, "loop")
    gl = cfg_of(lpf)
    rc = calls_named(gl, "retry")
    # R8: once answered, no further transmission.  Within one engine pass the order is dispatch -> loop() of
    # every handler -> clean-up, so an answered (flagged) handler still gets a loop() call; it must not retry there.
    hd = repo.own_method(BASE, "handled")
    ghd = cfg_of(hd)
    rs_h = calls_named(ghd, "_reset_timeout")
    by_reset = any(ghd.pdom(n, ghd.entry) for n, _ in rs_h)
    flag_atoms = {"self._should_remove_handler", "self.should_remove_handler"}
    by_guard = bool(rc) and any((t in flag_atoms and p is False) for t, p in gl.guard_atoms(rc[0][0]))
    ph = [o for o in order if o in ("_process_received_data", "loop", "_cleanup_handlers")]
    by_order = "_cleanup_handlers" in ph and "loop" in ph and "_process_received_data" in ph and \
        ph.index("_process_received_data") < ph.index("_cleanup_handlers") < ph.index("loop")
    why_not = []
    if not by_reset:
        g_ = "; ".join(("" if p_ else "not ") + t_ for n_, _ in rs_h for t_, p_ in ghd.guard_atoms(n_)) if rs_h else "no call"
        why_not.append(f"{hd.qual} restarts the timeout only when [{g_}]")
    if not by_guard:
        why_not.append(f"{lpf.qual} does not skip flagged handlers")
    if not by_order:
        why_not.append(f"{tf.qual} runs loop() before _cleanup_handlers()")
    over = [m.qual for cs in repo.classes().values() for c in cs for m in c.methods.values() if m.name in ("handled", "loop") and c.name != BASE and "ProtocolHandler" in c.name]
    if over:
        ctx.error(f"R8: handled()/loop() overridden in {over}: the base-class argument does not cover them")
    ctx.ob("R8", "answered-handler-does-not-retry", by_reset or by_guard or by_order,
           "an answered request can be transmitted again: its answer is dispatched after its timeout expired, the same engine pass then calls its loop(), which sees the timeout and retries (queueing a send) before the clean-up removes it ["
           + "; ".join(why_not) + "]", hd.loc,
           sample={"rule": "R8", "handled_restarts_timeout_on_every_path": by_reset, "loop_skips_flagged": by_guard, "cleanup_before_loop": by_order})
    cl = repo.own_method(SOCK, "_cleanup_handlers")
    # by interpretation: three registered handlers, the first and third flagged -> exactly the second stays, in place
    from ..absint import Interp as _I, Obj as _O, PyRaise as _PR, Undecided as _UD
    hs = [_O(None, {"should_remove_handler": f, "_should_remove_handler": f}, name=f"h{i}") for i, f in enumerate((True, False, True, False))]
    from ..absint import ClassRef as _CR
    _it = _I(repo)
    try:
        sock_obj = _it.apply(_CR(repo.cls(SOCK)), [], {})   # the socket as its own constructor leaves it (busy counter, locks, queues)
    except (_PR, _UD) as e:
        raise AnalysisError(f"{SOCK}() cannot be constructed by interpretation: {e}")
    sock_obj.attrs["_receive_handlers"] = list(hs)
    try:
        _it.call(cl, sock_obj, [])
        left = sock_obj.attrs.get("_receive_handlers")
        ok = isinstance(left, list) and len(left) == 2 and left[0] is hs[1] and left[1] is hs[3]
        why = f"{[getattr(x, 'name', x) for x in left] if isinstance(left, list) else left}"
    except _PR as e:
        ok, why = False, f"raises {e.what}"
    except _UD as e:
        raise AnalysisError(f"{cl.qual}: cannot interpret: {e}")
    ctx.ob("R5", f"{cl.qual}::removes-exactly-flagged", ok, f"{cl.qual} on handlers [flagged, live, flagged, live] leaves {why}: not exactly the live handlers in registration order", cl.loc)
    # request builders of the blocking stack arm retry + default failure handler
    n_b = 0
    # behavioural probe (vlib/handlermodel.builder_armed): the built request times out after the protocol timeout, can be
    # resent exactly PROTOCOL_RETRY_COUNT times, and its failure callback flags it for removal
    from ..handlermodel import builder_armed
    from . import c04 as _c04
    try:
        N_ = _I(repo).eval(ast.parse("GeckoConfig.PROTOCOL_RETRY_COUNT", mode="eval").body, {"__mod__": repo.method(BASE, "retry").mod, "__class__": None})
    except (_PR, _UD):
        N_ = None
    if not isinstance(N_, int):
        # the handler module itself does not name the configuration: read the table in force at import
        try:
            N_ = _I(repo).eval(ast.parse("GeckoConfig.PROTOCOL_RETRY_COUNT", mode="eval").body, {"__mod__": (repo.cls("_GeckoIdleConfig", False) or repo.cls("_GeckoConfig")).mod, "__class__": None})
        except (_PR, _UD):
            N_ = None
    if not isinstance(N_, int):
        raise AnalysisError("GeckoConfig.PROTOCOL_RETRY_COUNT does not evaluate to an integer - the configured retry budget is unknown to C20.R5")
    seen_b = set()
    for cname_, builder_, args_, _exp, _desc in _c04.message_table():
        if builder_ not in ("request", "full_request", "set_value", "keypress") or (cname_, builder_) in seen_b or cname_ == "GeckoPingProtocolHandler":
            continue
        seen_b.add((cname_, builder_))
        m = repo.method(cname_, builder_)
        n_b += 1
        pr = builder_armed(repo, cname_, builder_, args_)
        ok = "raises" not in pr and pr["timeout"] is not None and pr["timeout"] > 0 and pr["budget"] >= 1 and (not isinstance(N_, int) or pr["budget"] == N_) and pr["flags"]
        ctx.ob("R5", f"{m.qual}::armed", ok, f"{m.qual} builds a request with {pr}: expected a positive timeout, a retry budget of GeckoConfig.PROTOCOL_RETRY_COUNT = {N_} and a failure callback that flags it for removal", m.loc)
    ctx.floor("R5", "request builders", n_b, 9)
    # ... under every table: a budget taken from another member that happens to hold the same number somewhere
    # (PROTOCOL_TIMEOUT_IN_SECONDS for PROTOCOL_RETRY_COUNT) shows under the table whose members all differ
    from ..handlermodel import armed_under_every_table
    armed_under_every_table(ctx, repo, "R5", why=" - the handshake step is not retried")
    # ... and an answer that cannot be decoded does not retire the request: the engine contains the exception and the
    # request must stay registered (it times out, is retransmitted, and the next good answer continues the chain) -
    # a request flagged for removal by a damaged answer is dropped after ONE transmission
    from ..symbytes import SymBytes as _SB
    n_t = 0
    it_t = _I(repo, max_depth=10)
    rows = list(_c04.message_table())
    for cname_, builder_, args_, _exp, _desc in rows:
        if builder_ not in ("request", "full_request") or cname_ in ("GeckoPingProtocolHandler",):
            continue
        resp = [r for r in rows if r[0] == cname_ and r[1] == "response"]
        if not resp:
            continue
        try:
            fields = _c04._fields_in(resp[0][2], {})
            base_ = {n: (0x21 + 13 * i) & ((1 << b) - 1) for i, (n, b) in enumerate(sorted(fields.items()))}
            wire = _c04.wire_of(_c04.build_message(repo, it_t, cname_, "response", _c04._subst(resp[0][2], base_)), it_t)
            wire = _SB.of(wire).concrete() if wire is not None else None
        except (_PR, _UD):
            continue
        if not isinstance(wire, (bytes, bytearray)) or len(wire) < 7:
            continue
        rfields = _c04._fields_in(args_, {})
        rbase = {n: (0x21 + 13 * i) & ((1 << b) - 1) or 1 for i, (n, b) in enumerate(sorted(rfields.items()))}
        for cut in (6, len(wire) - 1):
            try:
                req = _c04.build_message(repo, it_t, cname_, builder_, _c04._subst(args_, rbase))
                it_t.steps = 0
                it_t.call(repo.method(cname_, "handle"), req, [bytes(wire[:cut]), ("10.0.0.1", 10022)])
                continue          # decoded without complaint: not a damaged answer for this decoder
            except _PR:
                pass
            except _UD as e:
                raise AnalysisError(f"{cname_}.handle on a truncated answer: {e}")
            n_t += 1
            try:
                flagged = it_t.getattr(req, "should_remove_handler")
            except (_PR, _UD):
                flagged = None
            ctx.ob("R5", f"{cname_}.{builder_}::undecodable-answer-keeps-the-request::{cut}-bytes", flagged is False,
                   f"{cname_}: an answer cut to {cut} bytes makes handle() raise (the engine logs it and goes on) and leaves should_remove_handler = {flagged!r}: "
                   f"the clean-up retires a request that was never answered - no retransmission, the step of the handshake is lost although a later good answer was within the retry budget",
                   repo.method(cname_, "handle").loc, sample={"rule": "R5", "class": cname_, "cut": cut})
    ctx.floor("R5", "undecodable answers delivered to pending requests", n_t, 4)

    # ---- R6 removed once answered --------------------------------------------------------------------------
    EXC = {"GeckoPingProtocolHandler": "persistent ping handler", "GeckoStatusBlockProtocolHandler": "flag set by GeckoStructure on the final segment (C01.R5)",
           "GeckoPacketProtocolHandler": "framing layer", "GeckoHelloProtocolHandler": "discovery listener", "GeckoRFErrProtocolHandler": "unsolicited",
           "GeckoWatercareErrorHandler": "unsolicited", "GeckoPartialStatusBlockProtocolHandler": "unsolicited", "GeckoAsyncPartialStatusBlockProtocolHandler": "unsolicited",
           "GeckoUnhandledProtocolHandler": "catch-all"}
    n_h = 0
    for c in repo.subclasses(BASE):
        if c.short in EXC or "handle" not in c.methods:
            continue
        n_h += 1
        h = c.methods["handle"]
        gh = cfg_of(h)
        sets = [n for n in gh.stmt_nodes() if isinstance(n.ast, ast.Assign) and ast.unparse(n.ast.targets[0]) == "self._should_remove_handler" and repo.try_fold(n.ast.value) is True]
        # every path that does not return early on a *request* verb must set the flag: the last statement path
        ok = bool(sets) and any(gh.exit in (gh.reach_from(s, labels_skip=("exc",))) for s in sets)
        # request branches return before: flag must not dominate them
        ctx.ob("R6", f"{h.qual}::response-sets-removal-flag", ok, f"{h.qual}: the response branch does not set _should_remove_handler: an answered request keeps being retransmitted until its retries run out", h.loc,
               sample={"rule": "R6", "handler": c.short, "flag_lines": [s.lineno for s in sets]})
    ctx.floor("R6", "request-capable handler classes", n_h, 6)

    # ---- R7 handshake chain -------------------------------------------------------------------------------------
    chain = [("GeckoSpa.start_connect", "GeckoVersionProtocolHandler", "_on_version_received"),
             ("GeckoSpa._on_version_received", "GeckoGetChannelProtocolHandler", "_on_channel_received"),
             ("GeckoSpa._on_channel_received", "GeckoConfigFileProtocolHandler", "_on_config_received")]
    for qual, hcls, nxt in chain:
        fi = repo.func(qual)
        gfi = cfg_of(fi)
        made = [n for n in gfi.stmt_nodes() if isinstance(n.ast, ast.Assign) and isinstance(n.ast.value, ast.Call) and ast.unparse(n.ast.value.func) == f"{hcls}.request"]
        ok = len(made) == 1
        if ok:
            var = ast.unparse(made[0].ast.targets[0])
            kw = {k.arg: ast.unparse(k.value) for k in made[0].ast.value.keywords}
            ok = kw.get("on_handled") == f"self.{nxt}"
            reg = [n for n, c in calls_named(gfi, "add_receive_handler") if c.args and ast.unparse(c.args[0]) == var]
            snd = [n for n, c in calls_named(gfi, "queue_send") if c.args and ast.unparse(c.args[0]) == var]
            ok = ok and len(reg) == 1 and len(snd) == 1 and gfi.dom(reg[0], snd[0])
        ctx.ob("R7", f"{qual}::{hcls}->{nxt}", ok, f"{qual}: does not build {hcls}.request(on_handled=self.{nxt}), register it and then queue it", fi.loc,
               sample={"rule": "R7", "step": qual, "next": nxt})
    ocr = repo.func("GeckoSpa._on_config_received")
    gocr = cfg_of(ocr)
    rr = calls_named(gocr, "retry_request")
    ok = len(rr) == 1 and "GeckoStatusBlockProtocolHandler.full_request" in ast.unparse(rr[0][1]) and gocr.exit in gocr.reach_from(rr[0][0])
    ctx.ob("R7", "GeckoSpa._on_config_received->retry_request(full_request)", ok, "_on_config_received does not start the full status-block transfer", ocr.loc)
    # the engine thread calls _final_connect unprotected: whatever it raises on must have been established before
    # the status transfer (whose completion triggers it) is started
    fcf0 = repo.func("GeckoSpa._final_connect")
    need = set()
    for n_ in ast.walk(fcf0.node):
        if isinstance(n_, ast.If) and any(isinstance(x, ast.Raise) for x in n_.body):
            for t_ in ast.walk(n_.test):
                if isinstance(t_, ast.Compare) and len(t_.ops) == 1 and isinstance(t_.ops[0], ast.Is) and isinstance(t_.left, ast.Attribute) and isinstance(t_.left.value, ast.Name) and t_.left.value.id == "self":
                    need.add(t_.left.attr)
    for attr in sorted(need):
        sets = [n_ for n_ in gocr.stmt_nodes() if isinstance(n_.ast, ast.Assign) and any(ast.unparse(t_) == f"self.{attr}" for t_ in n_.ast.targets)
                and not (isinstance(n_.ast.value, ast.Constant) and n_.ast.value.value is None)]
        ok = bool(rr) and bool(sets) and any(gocr.dom(s_, rr[0][0]) for s_ in sets)
        ctx.ob("R4", f"GeckoSpa._on_config_received::{attr}::built-before-status-request", ok,
               f"GeckoSpa._on_config_received starts the status-block transfer on a path where `self.{attr}` has not been built: if building it fails afterwards the handler exception is contained, "
               f"but the completed transfer then makes the engine thread call _final_connect, which raises on `{attr} is None` outside any try - the engine stops", ocr.loc)
    final_connect_model(ctx, repo, "R7")
    sob = repo.func("GeckoStructure._on_status_block_received")
    ok = any(isinstance(n, ast.Assign) and ast.unparse(n.targets[0]) == "self.had_at_least_one_block" and repo.try_fold(n.value) is True for n in ast.walk(sob.node))
    ctx.ob("R7", "GeckoStructure::marks-first-block", ok, "the structure never reports its first complete block", sob.loc)
    ctx.rule("R10", "a registration is never lost to the clean-up: _cleanup_handlers, interpreted on an engine built by its own constructor with a model lock, once per lock-release point it passes, with another thread registering a handler at exactly that point - afterwards the newcomer is still registered (the next datagram reaches it) and the finished handler is gone")
    from ..enginemodel import registration_survives_cleanup
    registration_survives_cleanup(ctx, repo, "R10")
    ctx.rule("R9", "handshake's status-block step: the blocking structure installs a block only when the final segment arrived in sequence, and restarts the transfer otherwise (C01's obligations on GeckoStructure: install guard, append guard, fresh assembly per resend, counted resends)")
    from . import c01 as _c01
    _c01.sync_assembly(ctx.borrowed("R9", "C01"), repo)
    ctx.note("NOT decided: pacing in seconds, real thread schedules, 'exactly N retransmissions' as counted events, the handshake under loss patterns.")
    ctx.assume("threading.Lock gives mutual exclusion; list.append/pop(0) are FIFO")
