"""C18 - pack tables are well-formed, consistent, and published layouts never change.

Exhaustive over every table module and every item (finite configuration space).
Deciding method: the tables are literal constructor calls, read as data from the AST;
geometry comes from interpreting /repo's accessor constructors on those literals.
"""
from __future__ import annotations

import gzip
import json

from ..core import VERIF, AnalysisError
from ..facts import block_size
from ..packs import mask_width, tables
from ..src import Repo

KIND_CLASS = {"pack": "GeckoPack", "cfg": "GeckoConfigStruct", "log": "GeckoLogStruct"}
# The FILES decoder aliases this reported platform key (configfile.py); listed exception
FILES_ALIASES = {"MrSt": "MrSteam"}


def writability(ctx, repo, T):
    """R10: which items a client may write is part of the published layout.  At the audited commit an item is
    writable exactly when its table declares any RW value (not None).  Every distinct RW literal occurring in the
    shipped tables is fed to both writers of a byte accessor built by the real constructor: a write is delivered
    iff the literal is not None, and refused (exception, no write) otherwise."""
    from ..absint import ClassRef, Interp, Native, Obj, PyRaise, Undecided
    ctx.rule("R10", "published writability: for every distinct RW literal of the shipped tables both writers deliver a write iff the literal is not None")
    values = {}
    for stem, m in T.modules.items():
        for it in m.items:
            try:
                rw = T.geometry(it).get("read_write")
            except Exception:  # noqa: BLE001
                continue
            values.setdefault(rw, f"{stem}::{it.tag}")
    ctx.floor("R10", "distinct RW literals in the tables", len(values), 2)
    cls = repo.cls("GeckoByteStructAccessor")
    for rw, where in sorted(values.items(), key=lambda kv: repr(kv[0])):
        for method in ("_set_value", "async_set_value"):
            interp = Interp(repo, max_depth=8)
            got = []
            st = Obj(None, {"status_block": b"\x00" * 16, "set_value": Native(lambda a, k: got.append(tuple(a))), "async_set_value": Native(lambda a, k: got.append(tuple(a)))})
            try:
                acc = interp.apply(ClassRef(cls), [st, "Item", 3, rw], {})
                interp.steps = 0
                interp.call(repo.method("GeckoByteStructAccessor", method), acc, [7])
                outcome = "written" if got else "silently dropped"
            except PyRaise:
                outcome = "refused" if not got else "written then raised"
            except Undecided as e:
                raise AnalysisError(f"GeckoByteStructAccessor.{method} with RW {rw!r}: {e}")
            want = "written" if rw is not None else "refused"
            ctx.ob("R10", f"{method}::RW={rw!r}", outcome == want,
                   f"an item declared with RW {rw!r} (e.g. {where}) is {outcome} by {method}; at the published layout it is {want}: the item's writability changed without a table edit",
                   repo.method("GeckoByteStructAccessor", method).loc, sample={"rule": "R10", "rw": repr(rw), "writer": method, "outcome": outcome})


def refresh_window(ctx, repo, T):
    """R9: the periodic refresh of both clients asks for a byte range that covers every item of the
    connected log table lying inside its published window [begin, end].  The request expression of each
    refresh site is evaluated (vlib.absint) for every shipped log table; the STATU builder is intercepted
    and its (start, length) compared with the items."""
    import ast
    from ..absint import BoundMethod, Interp, Native, Obj, Opaque, PyRaise, Undecided
    ctx.rule("R9", "refresh window: for every shipped log table the (start, length) both clients request periodically covers every item inside the table's published [begin, end] window")
    STATU = "GeckoStatusBlockProtocolHandler.request"
    sites = []
    for cname in ("GeckoAsyncSpa", "GeckoSpa"):
        cls = repo.cls(cname)
        for m in cls.methods.values():
            attrs = {n.attr for n in ast.walk(m.node) if isinstance(n, ast.Attribute)}
            if {"begin", "end"} <= attrs:
                # outermost call whose arguments mention .begin / .end
                best = None
                for n in ast.walk(m.node):
                    if isinstance(n, ast.Call) and {"begin", "end"} <= {x.attr for a in list(n.args) + [k.value for k in n.keywords] for x in ast.walk(a) if isinstance(x, ast.Attribute)}:
                        if best is None or any(x is best for x in ast.walk(n)):
                            pass
                        inner = any(isinstance(x, ast.Call) and x is not n and {"begin", "end"} <= {y.attr for a in list(x.args) + [k.value for k in x.keywords] for y in ast.walk(a) if isinstance(y, ast.Attribute)} for x in ast.walk(n))
                        if not inner:
                            best = n
                if best is not None:
                    sites.append((m, best))
    ctx.floor("R9", "refresh request sites", len(sites), 2)
    windows = {}
    for stem, m in T.modules.items():
        if m.kind == "log":
            windows.setdefault((m.props.get("begin"), m.props.get("end")), []).append(m)
    n_chk = 0
    for m, call in sites:
        names = {ast.unparse(x.value) for x in ast.walk(call) if isinstance(x, ast.Attribute) and x.attr in ("begin", "end")}
        for (b, e), mods in sorted(windows.items(), key=lambda kv: (str(type(kv[0][0])), str(kv[0]))):
            if not (isinstance(b, int) and isinstance(e, int)):
                continue          # a log table without a literal window is R5's / R7's finding
            got = []
            interp = Interp(repo)

            def hook(it, node, callee, args, kwargs):
                if isinstance(callee, BoundMethod) and callee.fi.qual == STATU:
                    got.append((args[1], args[2]))
                    return Opaque("request")
                return NotImplemented
            interp.call_hook = hook
            counter = Native(lambda a, k: 1, "counter")
            logc = Obj(None, {"begin": b, "end": e})
            me = Obj(repo.instance_cls(m.cls), {"sendparms": ("1.1.1.1", 10022, b"IOS", b"SPA"), "get_and_increment_sequence_counter": counter,
                             "_protocol": Obj(None, {"get_and_increment_sequence_counter": counter})})
            for nm in names:
                parts = nm.split(".")
                if parts[0] == "self" and len(parts) == 2:
                    me.attrs[parts[1]] = logc
            try:
                interp.eval(call, {"self": me, "__class__": m.cls, "__mod__": m.mod})
            except (PyRaise, Undecided) as ex:
                raise AnalysisError(f"{m.qual}: refresh request cannot be evaluated: {ex}")
            if len(got) != 1 or not all(isinstance(v, int) for v in got[0]):
                raise AnalysisError(f"{m.qual}: refresh request does not reach {STATU} exactly once with concrete arguments ({got})")
            start, length = got[0]
            for mod in mods:
                for it in mod.items:
                    ln = T.geometry(it)["length"]
                    if it.pos >= b and it.pos + ln - 1 <= e:
                        n_chk += 1
                        if not (start <= it.pos and it.pos + ln <= start + length):
                            ctx.ob("R9", f"{m.qual}::{mod.stem}::{it.tag}", False,
                                   f"{m.qual}: for {mod.stem} (window {b}..{e}) the refresh asks for {length} bytes from {start}, i.e. {start}..{start + length - 1}: item {it.tag} at {it.pos}..{it.pos + ln - 1} lies inside the published window but is never refreshed",
                                   f"{m.mod.rel}:{call.lineno}")
            ctx.ob("R9", f"{m.qual}::window::{b}-{e}", True, "", sample={"rule": "R9", "site": m.qual, "window": [b, e], "request": [start, length], "tables": len(mods)})
    ctx.floor("R9", "items inside refresh windows checked", n_chk, 5000)


def check(ctx):
    repo = Repo()
    T = tables(repo)
    BLOCK = block_size(repo)
    ctx.exhaustive = True
    ctx.count("table_modules", len(T.modules))
    ctx.count("items", T.n_items())
    ctx.count("block_size", BLOCK)
    ctx.rule("R1", f"every item lies inside the {BLOCK}-byte block (0 <= pos, pos+length <= size)")
    ctx.rule("R2", "bit field inside its bytes: mask contiguous, bitpos+width <= 8*length")
    ctx.rule("R3", "every enumeration label representable in its field")
    ctx.rule("R4", "advertised keys (outputs, user demands, devices' demands, error keys) name items; dict key == tag; no duplicate dict keys")
    ctx.rule("R5", "module stem agrees with declared class/version/platform name; log window 0<=begin<end<=size")
    ctx.rule("R6", "layout of every module pinned at 236b7b1 is unchanged (item-by-item)")
    ctx.rule("R7", "table modules contain nothing but the literal shape")
    ctx.rule("R8", "module lookup from the FILES reply: GeckoAsyncSpa._connect and GeckoSpa._on_config_received import geckolib.driver.packs.<platform.lower()>, ...-cfg-<config_version>, ...-log-<log_version>, all three read from the same reply handler (symbolic string templates)")
    ctx.rule("R9", "the layout served is the loaded pair's: on both structure classes, built by their own constructors, build_accessors(config, log) leaves exactly the items of that pair - also when another pair was loaded before (an in-place update keeps items of the earlier table at positions that belong to other items of the table now in force) (C12.R8's structure model borrowed)")
    from .c12 import structure_tables as _st18
    _st18(ctx.borrowed("R9", "C12"), repo, "R8")
    ctx.rule("R10", "the labels in force are the published ones: on the facades built for the richest shipped (config, log) pair of every platform, the label list of every item the construction looked at is the same after every read-only member of every automation device (properties - a pump's `modes` included -, __str__, __repr__) has been read: a user of an item never edits the list the table handed to it (the item's enumeration would change under every later read and write)")
    from ..buildmodel import labels_after_reads as _lar
    n10_, w10_ = 0, 0
    for (plat_, cs_, ls_, fcls_), (r_, extra_) in sorted(_lar(repo, T).items()):
        if r_ is not None or extra_ is None:
            continue      # a pair whose facade cannot be built is C11's finding
        changed_, nw_ = extra_
        n10_ += 1
        w10_ += nw_
        ctx.ob("R10", f"{fcls_}::{plat_}::labels-unchanged-by-reads", not changed_,
               f"{fcls_} built on ({cs_}, {ls_}): after reading the devices' members {len(changed_)} item(s) have other labels than the table published, e.g. "
               + "; ".join(f"{k}: {b} -> {a}" for k, b, a in changed_[:2]) + " - the live layout no longer is the published one: every later read and write of the item uses the edited enumeration",
               repo.method(fcls_, "all_automation_devices").loc, sample={"rule": "R10", "facade": fcls_, "platform": plat_, "items_watched": nw_} if plat_.startswith("inyt") else None)
    # ... also on the log tables in which an item's writability differs from the platform's other versions (an item
    # published read-only in two old versions): what the facade's construction leaves must be what THAT table publishes
    for (plat_, cs_, ls_, fcls_), (r_, extra_) in sorted(_lar(repo, T, variants=True).items()):
        if r_ is not None or extra_ is None:
            continue
        changed_, nw_ = extra_
        n10_ += 1
        w10_ += nw_
        ctx.ob("R10", f"{fcls_}::{cs_}+{ls_}::as-published", not changed_,
               f"{fcls_} built on ({cs_}, {ls_}): {len(changed_)} item(s) are not as the table publishes them, e.g. " + "; ".join(f"{k}: {b} -> {a}" for k, b, a in changed_[:2]) +
               " - an item the table publishes read-only has become writable on the connected spa: commands are sent for a status byte", repo.method(fcls_, "all_automation_devices").loc)
    ctx.count("R10:facades read", n10_)
    ctx.floor("R10", "facades whose devices were read", n10_, 10)
    ctx.floor("R10", "label lists watched", w10_, 200)
    from ..modlookup import lookup_obligations
    n_lk = 0
    for q in ("GeckoAsyncSpa._connect", "GeckoSpa._on_config_received"):
        n_lk += lookup_obligations(ctx, repo, q, "R8")
    ctx.floor("R8", "module lookups analysed", n_lk, 6)
    ctx.floor("R1", "table modules", len(T.modules), 120)
    ctx.floor("R1", "items", T.n_items(), 15000)

    n_shapes = set()
    for stem, m in sorted(T.modules.items()):
        # R7
        ctx.ob("R7", stem, not m.nonliteral, f"{stem}: non-literal constructs {m.nonliteral[:3]}", m.path)
        # R5 naming
        want = KIND_CLASS[m.kind]
        ctx.ob("R5", f"{stem}::class", m.cls == want, f"{stem} declares class {m.cls}, expected {want}", m.path)
        if m.kind == "pack":
            name = m.props.get("name")
            ok = isinstance(name, str) and name.lower() == stem
            ctx.ob("R5", f"{stem}::name", ok, f"GeckoPack.name {name!r} lower-cased is not the module stem {stem!r}", m.path)
            ctx.ob("R5", f"{stem}::type", isinstance(m.props.get("type"), int) and 0 <= m.props.get("type", -1) <= 255,
                   f"{stem}: pack type {m.props.get('type')!r} is not a byte", m.path)
        else:
            ctx.ob("R5", f"{stem}::version", m.props.get("version") == m.ver,
                   f"{stem} declares version {m.props.get('version')!r}", m.path)
            ctx.ob("R5", f"{stem}::platform", m.platform in T.modules,
                   f"{stem}: no pack module {m.platform}.py", m.path)
        if m.kind == "log":
            b, e = m.props.get("begin"), m.props.get("end")
            ok = isinstance(b, int) and isinstance(e, int) and 0 <= b < e <= BLOCK
            ctx.ob("R5", f"{stem}::window", ok, f"{stem}: refresh window begin={b} end={e} not inside 0..{BLOCK}", m.path)

        keys = set(m.keys())
        # R4 duplicates and key==tag
        for it in m.items:
            if it.dup:
                ctx.ob("R4", f"{stem}::{it.key}::dup", False, f"{stem}: duplicate dict key {it.key}", f"{m.path}:{it.lineno}")
            if it.tag != it.key:
                ctx.ob("R4", f"{stem}::{it.key}::tag", False, f"{stem}: key {it.key!r} declares tag {it.tag!r}", f"{m.path}:{it.lineno}")
        ctx.ob("R4", f"{stem}::keys", True, "dict keys equal tags, no duplicates (aggregate)")
        for prop in ("output_keys", "user_demand_keys", "error_keys"):
            if prop in m.props:
                for k in m.props[prop]:
                    ctx.ob("R4", f"{stem}::{prop}::{k}", k in keys,
                           f"{stem}: {prop} advertises {k!r} which is not an item", m.path)

        # per item geometry
        for it in m.items:
            try:
                g = T.geometry(it)
            except AnalysisError as e:
                ctx.error(f"{stem}::{it.key}: {e}")
                continue
            n_shapes.add((g["cls"], g["type"], g["length"], g["bitpos"], g["bitmask"]))
            loc = f"{m.path}:{it.lineno}"
            key = f"{stem}::{it.key}"
            pos, ln = g["pos"], g["length"]
            ok = isinstance(pos, int) and isinstance(ln, int) and pos >= 0 and ln in (1, 2) and pos + ln <= BLOCK
            ctx.ob("R1", key, ok, f"pos {pos}+{ln} exceeds the {BLOCK}-byte block", loc,
                   sample={"rule": "R1", "item": key, "pos": pos, "length": ln, "bitpos": g["bitpos"], "mask": g["bitmask"]} if it is m.items[0] else None)
            width = None
            if g["bitpos"] is not None:
                w = mask_width(g["bitmask"])
                ok2 = w is not None and isinstance(g["bitpos"], int) and g["bitpos"] >= 0 and g["bitpos"] + w <= 8 * ln
                ctx.ob("R2", key, ok2, f"bit field bitpos={g['bitpos']} mask={g['bitmask']} does not fit in {ln} byte(s)", loc)
                width = w
            if g["type"] == "Enum":
                items = g["items"]
                if not isinstance(items, list):
                    ctx.ob("R3", key, False, f"enum without label list ({items!r})", loc)
                else:
                    cap = (1 << width) if width is not None else 256 ** ln
                    ctx.ob("R3", key, len(items) <= cap,
                           f"{len(items)} labels do not fit a field holding {cap} values (bitpos={g['bitpos']} mask={g['bitmask']})", loc)
    ctx.count("distinct_geometry_shapes", len(n_shapes))

    # combination-level: no key defined by both cfg and log of one combination with
    # different geometry (dict(cfg, **log) silently overrides)
    # (informational count only; property text does not demand disjointness)

    # R11 published widths: the table declares a type (and, for enumerations, a Size); how many bytes that is, is the
    # accessor constructors' doing - Byte and Bool 1, Word / Time / Temp 2, Enum its Size (1 when none is given), as the
    # in.touch2 pack definitions publish them.  Evaluated for every item from the geometry the interpreted constructors give.
    ctx.rule("R11", "widths as published: for every item of every table the width the interpreted accessor constructor gives it is the width its declared type publishes - Byte and Bool 1 byte, Word, Time and Temp 2, Enum its Size argument (1 when none) - with the struct format to match (a Time item read as one byte loses its minutes, writes one byte and stops notifying for the other)")
    WIDTH = {"GeckoByteStructAccessor": 1, "GeckoBoolStructAccessor": 1, "GeckoWordStructAccessor": 2, "GeckoTimeStructAccessor": 2, "GeckoTempStructAccessor": 2}
    size_at = {}
    n11, bad11 = 0, {}
    for stem, m in sorted(T.modules.items()):
        for it in m.items:
            try:
                g = T.geometry(it)
            except AnalysisError:
                continue
            want = WIDTH.get(it.ctor)
            if want is None and it.ctor == "GeckoEnumStructAccessor":
                if it.ctor not in size_at:
                    ini = repo.method(it.ctor, "__init__")
                    names = [a.arg for a in ini.node.args.args][2:]      # after self, struct
                    size_at[it.ctor] = names.index("size") if "size" in names else None
                i_ = size_at[it.ctor]
                sz = it.args[i_] if i_ is not None and i_ < len(it.args) else None
                want = sz if isinstance(sz, int) and sz > 0 else 1
            if want is None:
                continue
            n11 += 1
            fmt = g.get("format")
            if g["length"] != want or (isinstance(fmt, str) and fmt not in ({1: ">B", 2: ">H"}.get(want), None)):
                bad11.setdefault(it.ctor, []).append((stem, it.key, g["length"], fmt, want))
    for ctor_, lst in sorted(bad11.items()):
        stem_, key_, got_, fmt_, want_ = lst[0]
        ctx.ob("R11", f"{ctor_}::published-width", False,
               f"{len(lst)} item(s) built by {ctor_} are {got_} byte(s) wide (format {fmt_!r}) where the declared type publishes {want_}, e.g. {stem_}::{key_}: the other byte is no longer part of the item",
               repo.method(ctor_, "__init__").loc, sample={"rule": "R11", "constructor": ctor_, "items": len(lst)})
    ctx.ob("R11", "widths::examined", n11 > 0, "no item width examined")
    ctx.count("R11:item widths compared with the published width of their type", n11)
    ctx.floor("R11", "item widths compared", n11, 15000)

    # R6 layout pin
    bp = VERIF / "baseline" / "pack_layout.json.gz"
    if not bp.exists():
        raise AnalysisError("baseline/pack_layout.json.gz missing")
    base = json.loads(gzip.open(bp).read())
    n_pinned = 0
    for stem, bm in sorted(base["modules"].items()):
        n_pinned += 1
        m = T.modules.get(stem)
        if m is None:
            ctx.ob("R6", f"{stem}::<module>", False, f"pinned module {stem} disappeared")
            continue
        if m.cls != bm["cls"]:
            ctx.ob("R6", f"{stem}::<class>", False, f"class changed {bm['cls']} -> {m.cls}", m.path)
        for pk, pv in bm["props"].items():
            if m.props.get(pk) != pv:
                ctx.ob("R6", f"{stem}::<{pk}>", False,
                       f"{stem}.{pk} changed from pinned {_short(pv)} to {_short(m.props.get(pk))}", m.path)
        cur = {}
        for it in m.items:
            cur[it.key] = [it.ctor, it.args]
        for k, (bctor, bargs) in bm["items"].items():
            c = cur.get(k)
            if c is None:
                ctx.ob("R6", f"{stem}::{k}", False, f"pinned item {k} removed from {stem}", m.path)
            elif c[0] != bctor or _norm(c[1]) != _norm(bargs):
                ctx.ob("R6", f"{stem}::{k}", False,
                       f"layout of {stem}::{k} changed: pinned {bctor}{_short(bargs)} now {c[0]}{_short(c[1])}",
                       f"{m.path}:{m.item(k).lineno}")
        for k in cur:
            if k not in bm["items"]:
                ctx.ob("R6", f"{stem}::{k}", False, f"item {k} added to pinned module {stem}", m.path)
        ctx.ob("R6", f"{stem}::<pin>", True, "compared with pin")
    ctx.count("pinned_modules_compared", n_pinned)
    ctx.count("new_unpinned_modules", len([s for s in T.modules if s not in base["modules"]]))

    # R5 (b): the module names a FILES reply resolves to exist for every shipped pair
    from .c04 import files_roundtrip_names  # late import: shares the template analysis

    files_roundtrip_names(ctx, repo, T, rule="R5")
    refresh_window(ctx, repo, T)
    writability(ctx, repo, T)
    ctx.assume("the spa reports its platform key as the GeckoPack.name of the shipped pack module (MrSt alias excepted)")
    ctx.trusted.append("struct-free: geometry folded from accessor.py constructors by vlib.absint")


def _norm(v):
    return json.loads(json.dumps(v))


def _short(v):
    s = repr(v)
    return s if len(s) < 80 else s[:77] + "..."
