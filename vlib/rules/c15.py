"""C15 - discovery lists each spa once, honours the filter, and terminates on time.

R1 de-dup + paired appends; R2 identifier filter; R3 found flag; R4 termination loop;
R5 endpoint/task clean-up on every exit incl. cancellation (shares C10's pairing rule);
R6 reply parsing keeps identifier/name/address intact.
NOT decided: return *times* relative to the configured waits.
"""
from __future__ import annotations

import ast

from ..cfg import cfg_of
from ..core import AnalysisError
from ..facts import loc
from ..pathrules import assigns_attr, calls_named, loop_heads
from ..src import Repo, call_name, receiver, walk_no_nested


def _self_attrs(fi, pred):
    return {n.attr for n in ast.walk(fi.node) if isinstance(n, ast.Attribute) and isinstance(n.value, ast.Name) and n.value.id == "self" and pred(n)}


def found_flag_attr(repo):
    """by role: the attribute initialised to False in __init__, set to True by the reply callback, read by discover()"""
    init = repo.method("GeckoAsyncLocator", "__init__")
    cb = repo.method("GeckoAsyncLocator", "_async_on_discovered")
    d = repo.method("GeckoAsyncLocator", "discover")

    def assigned(fi, val):
        out = set()
        for n in ast.walk(fi.node):
            if isinstance(n, (ast.Assign, ast.AnnAssign)) and isinstance(getattr(n, "value", None), ast.Constant) and n.value.value is val:
                for t in (n.targets if isinstance(n, ast.Assign) else [n.target]):
                    if isinstance(t, ast.Attribute) and isinstance(t.value, ast.Name) and t.value.id == "self":
                        out.add(t.attr)
        return out
    both = assigned(init, False) & assigned(cb, True)
    cands = both & _self_attrs(d, lambda n: isinstance(n.ctx, ast.Load))
    if not cands:
        cands = both  # discover() may read it through a helper
    if len(cands) != 1:
        return None   # not a boolean attribute set in the callback (an enum state, a collaborator ...): the discovery model (R9) decides
    return cands.pop()


def start_stamp_attr(repo):
    """by role: the attribute discover() stamps with time.monotonic() and `age` reads"""
    d = repo.method("GeckoAsyncLocator", "discover")
    age = repo.method("GeckoAsyncLocator", "age")
    st = set()
    for n in ast.walk(d.node):
        if isinstance(n, ast.Assign) and "monotonic" in ast.unparse(n.value):
            for t in n.targets:
                if isinstance(t, ast.Attribute) and isinstance(t.value, ast.Name) and t.value.id == "self":
                    st.add(t.attr)
    cands = st & _self_attrs(age, lambda n: isinstance(n.ctx, ast.Load))
    if len(cands) != 1:
        raise AnalysisError(f"GeckoAsyncLocator: cannot identify the start stamp by role (candidates {sorted(cands)})")
    return cands.pop()


def _before(fn, loop):
    """plain `name = expr` statements that precede `loop` in the blocks enclosing it (function body, try bodies ...)"""
    out = []

    def walk(stmts):
        for st in stmts:
            if st is loop:
                return True
            if isinstance(st, ast.Assign) and all(isinstance(t, ast.Name) for t in st.targets) and not any(isinstance(x, (ast.Await, ast.Yield)) for x in ast.walk(st)):
                out.append(st)
                continue
            for fld in ("body", "orelse", "finalbody"):
                sub = getattr(st, fld, None)
                if isinstance(sub, list) and sub and isinstance(sub[0], ast.stmt) and any(x is loop for x in ast.walk(st)):
                    mark = len(out)
                    if walk(sub):
                        return True
                    del out[mark:]
        return False
    walk(fn.body)
    return out


def wait_loop_decisions(ctx, repo, d, hd):
    """R4 decision table: one pass of discover()'s wait loop is interpreted for all 16 valuations of
    (age < timeout, had enough time, some spa listed, requested spa found); it must go on waiting exactly
    when  age < timeout  and not (enough time and some spa)  and not found."""
    from ..absint import Interp, Obj, Opaque, PyRaise, Undecided

    class _Yielded(Exception):
        pass
    FLAG = found_flag_attr(repo)
    if FLAG is None:
        ctx.note(f"{d.qual}: the found flag is not a boolean attribute - the wait loop's decision table is replaced by the timed scenarios of the discovery model (R9)")
        return
    loop = hd.loop_stmt if hasattr(hd, "loop_stmt") else None
    if loop is None:
        for n in ast.walk(d.node):
            if isinstance(n, ast.While) and n.test is hd.ast:
                loop = n
    if loop is None:
        raise AnalysisError(f"{d.qual}: wait loop statement not found")
    spas_attr = next((ast.unparse(c.func.value).split(".")[-1] for n in ast.walk(repo.method("GeckoAsyncLocator", "_async_on_discovered").node)
                      if isinstance(n, ast.Call) and isinstance(n.func, ast.Attribute) and n.func.attr == "append" and n.args and isinstance(n.args[0], ast.Name)
                      for c in [n] if "dentifier" not in ast.unparse(n.func.value)), None)
    if spas_attr is None:
        raise AnalysisError("GeckoAsyncLocator: result list not identified by role")
    n_ok = 0
    for in_time in (True, False):
        for enough in (True, False):
            for some in (True, False):
                for found in (True, False):
                    interp = Interp(repo)
                    me = Obj(repo.cls("GeckoAsyncLocator"), {FLAG: found, spas_attr: [Opaque("descriptor")] if some else []})

                    def ahook(it, base, attr, me=me, in_time=in_time, enough=enough):
                        if base is me and attr == "age":
                            return 0.0 if in_time else 1e12
                        if base is me and attr == "has_had_enough_time":
                            return enough
                        return NotImplemented

                    def chook(it, node, callee, args, kwargs):
                        if getattr(callee, "name", "") in ("asyncio.sleep",) or (isinstance(getattr(node, "func", None), ast.Attribute) and node.func.attr in ("sleep", "config_sleep")):
                            raise _Yielded()
                        return NotImplemented
                    interp.attr_hook, interp.call_hook = ahook, chook
                    env0 = {"self": me, "__class__": d.cls, "__mod__": d.mod}
                    # locals bound before the loop (a constant or a limit hoisted out of it): evaluated first, as far as they
                    # are plain assignments that can be interpreted on the model object
                    for st0 in _before(d.node, loop):
                        try:
                            interp.exec(st0, env0)
                        except (PyRaise, Undecided, _Yielded):
                            pass
                    from ..absint import _Return as _Ret
                    try:
                        interp.exec(loop, env0)
                        went_on = False
                    except _Ret:
                        went_on = False       # the loop lives in a helper and is left by `return`
                    except _Yielded:
                        went_on = True
                    except (PyRaise, Undecided) as ex:
                        raise AnalysisError(f"{d.qual}: wait loop cannot be interpreted: {ex}")
                    want = in_time and not (enough and some) and not found
                    n_ok += 1
                    ctx.ob("R4", f"{d.qual}::wait-loop::in_time={in_time}::enough={enough}::some={some}::found={found}", went_on == want,
                           f"{d.qual}: with age {'<' if in_time else '>='} timeout, initial wait {'over' if enough else 'not over'}, {'some' if some else 'no'} spa listed, requested spa {'found' if found else 'not found'} "
                           f"the wait loop {'keeps waiting' if went_on else 'returns'}; the statement requires it to {'keep waiting' if want else 'return'}",
                           loc(d, hd.ast), sample={"rule": "R4", "in_time": in_time, "enough": enough, "some": some, "found": found, "waits": went_on} if n_ok % 5 == 1 else None)
    ctx.floor("R4", "wait-loop valuations", n_ok, 16)


def async_discovery_model(ctx, repo, rule, rule_filter=None):
    """The awaitable locator's discovery run by interpretation: GeckoAsyncLocator is built by its own constructor with a
    model task manager and event callback; discover() runs on a model event loop whose create_datagram_endpoint hands out a
    model transport, whose sleep advances a model clock and delivers scripted HELLO replies through the async_on_handled
    callback the locator passed to the hello handler (the consumer / broadcast coroutines themselves are C07 / C10 matter
    and are not run).  Observed: when discover() returns, what it lists and announces, that the endpoint is closed and
    the helper tasks' domain cancelled."""
    from ..absint import BoundMethod, ClassRef, Closure, Interp, Native, Obj, Opaque, PyRaise, Undecided
    L = "GeckoAsyncLocator"
    d = repo.method(L, "discover")
    try:
        it0 = Interp(repo)
        T_INIT, T_MAX = (it0.eval(ast.parse(f"GeckoConfig.{nm}", mode="eval").body, {"__mod__": d.mod, "__class__": d.cls})
                         for nm in ("DISCOVERY_INITIAL_TIMEOUT_IN_SECONDS", "DISCOVERY_TIMEOUT_IN_SECONDS"))
    except (PyRaise, Undecided) as e:
        raise AnalysisError(f"discovery timeouts as the locator module sees them: {e}")
    if not all(isinstance(x, (int, float)) for x in (T_INIT, T_MAX)) or not 0 < T_INIT < T_MAX:
        raise AnalysisError(f"discovery timeouts not resolved: initial {T_INIT!r}, overall {T_MAX!r}")
    A, B = (b"SPA-A", "Spa A", ("10.0.0.5", 10022)), (b"SPA-B", "Spa B", ("10.0.0.6", 10022))
    E = (b"SPA-E", "", ("10.0.0.7", 10022))       # a spa whose owner never named it

    def run(kwargs, script, cancel_at=None):
        st = {"clock": 100.0, "cb": None, "closed": 0, "cancelled": [], "events": [], "sleeps": 0, "tasks": []}
        pending = sorted(script, key=lambda x: x[0])
        it = Interp(repo, max_depth=14)

        def deliver():
            while pending and pending[0][0] <= st["clock"] - 100.0 + 1e-9:
                _, (ident, name, sender) = pending.pop(0)
                if st["cb"] is None or st["closed"]:
                    continue
                # the reply as the library's own handler decodes it: built by the HELLO reply builder, handled by a fresh
                # GeckoHelloProtocolHandler - what the locator reads are that handler's accessors
                from . import c04 as _c04
                msg = it.call(repo.method("GeckoHelloProtocolHandler", "response"), None, [ident, name])
                wire = it.getattr(msg, "send_bytes")
                h = _c04.fresh_handler(repo, it, repo.cls("GeckoHelloProtocolHandler"))
                it.call(repo.method("GeckoHelloProtocolHandler", "handle"), h, [bytes(wire) if isinstance(wire, (bytes, bytearray)) else wire, sender])
                it.apply(st["cb"], [h, sender], {})
        transport = Obj(None, {"close": Native(lambda a, k: st.__setitem__("closed", st["closed"] + 1), "close"), "sendto": Native(lambda a, k: None, "sendto"),
                               "is_closing": Native(lambda a, k: bool(st["closed"]), "is_closing")}, name="transport")

        def endpoint(a, k):
            proto = a[0]([], {}) if isinstance(a[0], Closure) else it.apply(a[0], [], {})
            if isinstance(proto, Obj) and proto.cls is not None:
                cm = repo.method(proto.cls.short, "connection_made", required=False)
                if cm is not None:
                    it.call(cm, proto, [transport])
            return (transport, proto)
        loop = Obj(None, {"create_future": Native(lambda a, k: Obj(None, {"done": Native(lambda a2, k2: False), "set_result": Native(lambda a2, k2: None),
                                                                         "cancel": Native(lambda a2, k2: None)}, name="future"), "create_future"),
                          "create_datagram_endpoint": Native(endpoint, "create_datagram_endpoint")}, name="loop")
        taskman = Obj(None, {"add_task": Native(lambda a, k: st["tasks"].append(tuple(a[1:3])), "add_task"),
                             "cancel_key_tasks": Native(lambda a, k: st["cancelled"].append(a[0]), "cancel_key_tasks")}, name="taskman")

        def event(a, k):
            st["events"].append((getattr(a[0], "name", str(a[0])), k.get("spa_descriptor")))

        def chook(it_, node, callee, args, kwargs_):
            nm = getattr(callee, "name", "")
            if nm == "time.monotonic":
                return st["clock"]
            if nm in ("asyncio.get_running_loop", "asyncio.get_event_loop"):
                return loop
            if nm == "asyncio.sleep":
                st["sleeps"] += 1
                if st["sleeps"] > 5000:
                    raise PyRaise("model: discover() did not return")
                if cancel_at is not None and st["sleeps"] == cancel_at:
                    raise PyRaise("asyncio.CancelledError", node)   # the caller gives up: cancellation is delivered at this await
                st["clock"] += float(args[0]) if args and isinstance(args[0], (int, float)) and args[0] > 0 else 0.05
                deliver()
                return None
            if isinstance(callee, BoundMethod) and callee.fi.name == "broadcast" and "async_on_handled" in kwargs_:
                st["cb"] = kwargs_["async_on_handled"]
                return NotImplemented
            if isinstance(callee, BoundMethod) and callee.fi.name in ("consume", "_broadcast_loop"):
                return Opaque(f"coroutine<{callee.fi.name}>")
            return NotImplemented
        it.call_hook = chook
        try:
            loc_ = it.apply(ClassRef(repo.cls(L)), [taskman, Native(event, "event_handler")], dict(kwargs))
            it.steps = 0
            it.call(d, loc_, [])
            lst = it.getattr(loc_, "spas")
            spas = [(it.getattr(x, "identifier"), it.getattr(x, "name"), (it.getattr(x, "ipaddress"), it.getattr(x, "port"))) for x in list(lst or [])]
        except PyRaise as e:
            return ("raises " + e.what, [], st)
        except Undecided as e:
            raise AnalysisError(f"{L}.discover on the model event loop: {e}")
        return (round(st["clock"] - 100.0, 3), spas, st)

    def within(t, lo, hi):
        return isinstance(t, float) and lo - 1e-6 <= t <= hi + 1e-6
    slack = 0.25
    cases = (
        ("requested::other-answers-first", {"spa_identifier": "SPA-B"}, [(0.3, A), (T_INIT / 2, B)], (T_INIT / 2, T_INIT / 2 + slack), [B],
         "lists only the requested spa and returns as soon as it has answered - not when another spa answers first"),
        ("requested::only-another-answers", {"spa_identifier": "SPA-B"}, [(0.3, A), (T_INIT + 1, A)], (T_MAX, T_MAX + slack), [],
         "the requested spa never answers: nothing is listed, returns at the discovery timeout"),
        ("no-request::one-answers-early", {}, [(0.3, A)], (T_INIT, T_INIT + slack), [A], "no spa requested: returns after the initial wait once any spa has answered, not at the first reply"),
        ("no-request::duplicates-and-two-spas", {}, [(0.2, A), (0.4, A), (0.5, B), (0.6, A), (0.7, B)], (T_INIT, T_INIT + slack), [A, B], "each responding spa is listed exactly once, in order of first reply"),
        ("no-request::late-first-answer", {}, [(T_INIT + 1.0, A)], (T_INIT + 1.0, T_INIT + 1.0 + slack), [A], "nobody answered during the initial wait: returns when the first spa answers"),
        ("nobody-answers", {}, [], (T_MAX, T_MAX + slack), [], "nobody answers: returns at the discovery timeout"),
        ("no-request::a-spa-without-a-name", {}, [(0.2, A), (0.3, E), (0.4, B)], (T_INIT, T_INIT + slack), [A, E, B], "a responding spa whose name is empty is listed like any other, and so is every spa that answers after it"),
        ("requested::a-spa-without-a-name", {"spa_identifier": "SPA-E"}, [(0.2, A), (0.6, E)], (0.6, 0.6 + slack), [E], "the requested spa has an empty name: listed, and discovery returns as soon as it has answered"),
        ("address-given::first-answer", {"spa_address": "10.0.0.5"}, [(0.5, A)], (0.5, 0.5 + slack), [A], "an address was given: returns as soon as that spa has answered"),
        ("empty-strings-mean-no-request", {"spa_address": "", "spa_identifier": ""}, [(0.3, A), (0.5, B)], (T_INIT, T_INIT + slack), [A, B], "empty address / identifier mean no request: the initial wait is honoured and every spa listed"),
    )
    n = 0
    for key, kwargs, script, (lo, hi), want_list, what in cases:
        t, spas, st = run(kwargs, script)
        n += 1
        ctx.ob(rule, f"{L}::{key}::returns-on-time", within(t, lo, hi),
               f"{L}({', '.join(f'{k}={v!r}' for k, v in kwargs.items())}).discover() with replies {[(tt, r[0]) for tt, r in script]} returns at t={t}; expected within [{lo}, {hi:.2f}]s: {what}",
               d.loc, sample={"rule": rule, "case": key, "returned_at": t, "listed": [str(x[0]) for x in spas]})
        ctx.ob(rule_filter if (rule_filter and key.startswith("requested::")) else rule, f"{L}::{key}::lists", spas == want_list,
               f"{L} lists {spas}, expected {want_list} (identifier, name and address intact, each spa once, only the requested one when an identifier is given)", d.loc)
        ev = [e for e in st["events"] if "DISCOVERED" in e[0]]
        ctx.ob(rule, f"{L}::{key}::announces-each-listed-spa-once", len(ev) == len(want_list),
               f"{L} raises {len(ev)} discovered-spa event(s) for {len(want_list)} listed spa(s)", d.loc)
        ctx.ob(rule, f"{L}::{key}::endpoint-closed-and-helpers-cancelled", st["closed"] >= 1 and bool(st["cancelled"]) and all(k_ in st["cancelled"] for _n, k_ in st["tasks"]),
               f"{L}.discover returns with transport.close() called {st['closed']} time(s), helper tasks started under {sorted({str(k_) for _n, k_ in st['tasks']})}, domains cancelled {st['cancelled']}", d.loc)
    ctx.floor(rule, "awaitable discovery runs interpreted", n, 10)
    # cancelled while waiting (the manager exits, or a wait_for around discover() times out): the endpoint is closed and the
    # helper tasks' domain cancelled all the same, and the cancellation is not swallowed
    for k in (1, 7):
        t, _spas, st = run({}, [(0.2, A)], cancel_at=k)
        ctx.ob(rule, f"{L}::cancelled-at-wait-{k}::endpoint-closed-and-helpers-cancelled",
               isinstance(t, str) and "CancelledError" in t and st["closed"] >= 1 and bool(st["cancelled"]) and all(k_ in st["cancelled"] for _n, k_ in st["tasks"]),
               f"{L}.discover() cancelled at its {k}{'st' if k == 1 else 'th'} wait: outcome {t!r}, transport.close() called {st['closed']} time(s), helper tasks under "
               f"{sorted({str(k_) for _n, k_ in st['tasks']})}, domains cancelled {st['cancelled']} - expected the CancelledError to propagate after closing the endpoint and cancelling the helper tasks", d.loc)


def blocking_discovery_model(ctx, repo, rule):
    """The blocking locator's whole discovery run by interpretation: GeckoLocator is built by its own constructor,
    start_discovery(True) runs on a model socket whose wait() advances a model clock and delivers scripted HELLO
    replies through the on_handled callback the locator registered.  What is observed: when the run returns, what
    it lists, that the socket is closed."""
    from ..absint import BoundMethod, ClassRef, Interp, Native, Obj, Opaque, PyRaise, Undecided
    from ..facts import class_const
    L = "GeckoLocator"
    sd0 = repo.method(L, "start_discovery")
    try:
        it0 = Interp(repo)
        T_INIT, T_MAX = (it0.eval(ast.parse(f"GeckoConfig.{nm}", mode="eval").body, {"__mod__": sd0.mod, "__class__": sd0.cls})
                         for nm in ("DISCOVERY_INITIAL_TIMEOUT_IN_SECONDS", "DISCOVERY_TIMEOUT_IN_SECONDS"))
    except (PyRaise, Undecided) as e:
        raise AnalysisError(f"discovery timeouts as the locator module sees them: {e}")
    if not all(isinstance(x, (int, float)) for x in (T_INIT, T_MAX)) or not 0 < T_INIT < T_MAX:
        raise AnalysisError(f"discovery timeouts not resolved: initial {T_INIT!r}, overall {T_MAX!r}")
    sd = repo.method(L, "start_discovery")
    A, B = (b"SPA-A", b"Spa A", ("10.0.0.5", 10022)), (b"SPA-B", b"Spa B", ("10.0.0.6", 10022))

    def run(kwargs, script):
        """script: [(time, reply)]; returns (t_return, [(identifier, name, sender)], closed, waits)"""
        st = {"clock": 100.0, "cb": None, "closed": False, "open": False, "waits": 0}
        pending = sorted(script, key=lambda x: x[0])
        it = Interp(repo, max_depth=12)
        it.max_steps = getattr(it, "max_steps", 0) and max(it.max_steps, 400000)

        def deliver():
            while pending and pending[0][0] <= st["clock"] - 100.0 + 1e-9:
                _, (ident, name, sender) = pending.pop(0)
                if st["cb"] is None or st["closed"]:
                    continue
                h = Obj(None, {"spa_identifier": ident, "spa_name": name, "client_identifier": b"IOS-X", "was_broadcast_discovery": False}, name="hello-reply")
                it.apply(st["cb"], [h, sender], {})

        def wait(a, k):
            st["waits"] += 1
            if st["waits"] > 5000:
                raise PyRaise("model: discovery did not return")
            st["clock"] += float(a[0]) if a and isinstance(a[0], (int, float)) else 0.1
            deliver()

        def add_handler(a, k):
            h = a[0]
            cb = None
            if isinstance(h, Obj):
                try:
                    cb = it.getattr(h, "_on_handled")    # also when the callback sits behind a property / in a collaborator
                except (PyRaise, Undecided):
                    cb = h.attrs.get("_on_handled")
            if cb is not None:
                st["cb"] = cb
        sock = Obj(None, {"open": Native(lambda a, k: st.__setitem__("open", True), "open"), "enable_broadcast": Native(lambda a, k: None, "enable_broadcast"),
                          "add_receive_handler": Native(add_handler, "add_receive_handler"), "queue_send": Native(lambda a, k: None, "queue_send"),
                          "wait": Native(wait, "wait"), "close": Native(lambda a, k: st.__setitem__("closed", True), "close")}, name="model-socket")

        def ahook(it_, base, attr):
            if base is sock and attr == "isopen":
                return st["open"] and not st["closed"]
            return NotImplemented

        def chook(it_, node, callee, args, kwargs_):
            nm = getattr(callee, "name", "")
            if nm == "time.monotonic":
                return st["clock"]
            if isinstance(callee, ClassRef) and callee.cls.short == "GeckoUdpSocket":
                return sock
            if nm == "threading.Thread":
                return Obj(None, {"start": Native(lambda a, k: None, "start"), "join": Native(lambda a, k: None, "join"), "is_alive": Native(lambda a, k: False, "is_alive")}, name="thread")
            return NotImplemented
        it.attr_hook, it.call_hook = ahook, chook
        try:
            loc_ = it.apply(ClassRef(repo.cls(L)), ["uuid-1234"], dict(kwargs))
            it.steps = 0
            it.call(sd, loc_, [True])
            spas = [(it.getattr(d_, "identifier"), it.getattr(d_, "name"), (it.getattr(d_, "ipaddress"), it.getattr(d_, "port"))) for d_ in list(it.getattr(loc_, "spas"))]
        except PyRaise as e:
            return ("raises " + e.what, [], st["closed"], st["waits"])
        except Undecided as e:
            raise AnalysisError(f"{L}.start_discovery on the model socket: {e}")
        return (round(st["clock"] - 100.0, 3), spas, st["closed"], st["waits"])

    def within(t, lo, hi):
        return isinstance(t, float) and lo - 1e-6 <= t <= hi + 1e-6
    slack = 0.25   # two polling intervals of the wait loop
    cases = (
        ("requested-by-text::other-answers-first", {"spa_to_find": "SPA-B"}, [(0.3, A), (T_INIT / 2, B)], (T_INIT / 2, T_INIT / 2 + slack), [A, B],
         "returns as soon as the requested spa has answered - not when another spa answers first"),
        ("requested-by-bytes::other-answers-first", {"spa_to_find": b"SPA-B"}, [(0.3, A), (T_INIT / 2, B)], (T_INIT / 2, T_INIT / 2 + slack), [A, B],
         "returns as soon as the requested spa has answered - not when another spa answers first"),
        ("requested::only-another-answers", {"spa_to_find": "SPA-B"}, [(0.3, A)], (T_INIT, T_INIT + slack), [A],
         "the requested spa never answers: returns after the initial wait because some spa answered"),
        ("no-request::one-answers-early", {}, [(0.3, A)], (T_INIT, T_INIT + slack), [A], "no spa requested: returns after the initial wait once any spa has answered, not at the first reply"),
        ("no-request::duplicates-and-two-spas", {}, [(0.2, A), (0.4, A), (0.5, B), (0.6, A), (0.7, B)], (T_INIT, T_INIT + slack), [A, B], "each responding spa is listed exactly once, in order of first reply"),
        ("no-request::late-first-answer", {}, [(T_INIT + 1.0, A)], (T_INIT + 1.0, T_INIT + 1.0 + slack), [A], "nobody answered during the initial wait: returns when the first spa answers"),
        ("nobody-answers", {}, [], (T_MAX, T_MAX + slack), [], "nobody answers: returns at the discovery timeout"),
        ("static-address::first-answer", {"static_ip": "10.0.0.5"}, [(0.5, A)], (0.5, 0.5 + slack), [A], "an address was given: returns as soon as that spa has answered"),
    )
    n = 0
    for key, kwargs, script, (lo, hi), want_list, what in cases:
        t, spas, closed, waits = run(kwargs, script)
        n += 1
        ctx.ob(rule, f"{L}::{key}::returns-on-time", within(t, lo, hi),
               f"{L}.start_discovery({', '.join(f'{k}={v!r}' for k, v in kwargs.items())}) with replies {[(tt, r[0]) for tt, r in script]} returns at t={t} (after {waits} polls); expected within [{lo}, {hi:.2f}]s: {what}",
               sd.loc, sample={"rule": rule, "case": key, "returned_at": t, "listed": [str(x[0]) for x in spas]})
        ctx.ob(rule, f"{L}::{key}::lists", spas == want_list,
               f"{L} lists {spas}, expected {want_list} (identifier, name and address intact, each spa once)", sd.loc)
        ctx.ob(rule, f"{L}::{key}::socket-closed", closed, f"{L}.start_discovery returns with its socket still open", sd.loc)
    ctx.floor(rule, "blocking discovery runs interpreted", n, 8)


def check(ctx):
    repo = Repo()
    ctx.rule("R1", "de-dup + paired appends: membership of the identifier in the seen-list is tested with an early return dominating both appends; identifier and descriptor are appended on exactly the same paths, once")
    ctx.rule("R2", "filter: when an identifier is requested only that spa is listed - decided on the discovery model of R9 (a non-requested spa answering first, or alone, is not listed)")
    ctx.rule("R3", "found flag: set only after the append and only when an address or identifier was requested")
    ctx.rule("R4", "termination: decision table of the wait loop over (age < DISCOVERY_TIMEOUT, had enough time, some spa listed, requested spa found) by interpretation - it keeps waiting exactly when in time, not (enough time and some spa) and not found; every iteration suspends; age measured from the start stamp")
    ctx.rule("R5", "clean-up: transport closed and LOC tasks cancelled on every exit of discover(), cancellation included")
    ctx.rule("R6", "descriptor keeps (identifier, name, sender) unchanged; HELLO reply parsing is C04.R6")
    ctx.rule("R10", "names and identifiers intact for every byte: the codec the HELLO decoder and the identifier filter use carries every byte value (latin-1; cp1252 remaps 27 byte values and cannot decode 5 - a spa whose name holds one of those is listed under another name or kills the reply consumer) (C04.R7 borrowed)")
    from .c04 import codec as _codec15
    _codec15(ctx.borrowed("R10", "C04"), repo)

    fi = repo.own_method("GeckoAsyncLocator", "_async_on_discovered")
    g = cfg_of(fi)
    h = fi.node.args.args[1].arg
    apps = calls_named(g, "append")
    id_apps = [(n, c) for n, c in apps if receiver(c) == "self._spa_identifiers"]
    de_apps = [(n, c) for n, c in apps if receiver(c) == "self._spas"]
    if not (len(id_apps) == 1 and len(de_apps) == 1):
        # the lists are kept under other names / appended through a helper: that each responding spa is listed exactly
        # once, in order, only when not filtered out is decided by the discovery model's scenarios (R9)
        ctx.note(f"{fi.qual}: identifier / descriptor appends not found under the audited names ({len(id_apps)}/{len(de_apps)}) - listing decided by the discovery model only")
    if len(id_apps) == 1 and len(de_apps) == 1:
        I, ic = id_apps[0]
        D, dc = de_apps[0]
        for nm, N in (("identifier", I), ("descriptor", D)):
            facts = g.guard_atoms(N)
            ctx.ob("R1", f"{fi.qual}::{nm}-append::not-seen-before", (f"{h}.spa_identifier in self._spa_identifiers", False) in facts,
                   f"{fi.qual}: {nm} appended without `{h}.spa_identifier in self._spa_identifiers` being false: a spa answering twice is listed twice; guards {sorted(facts)}", loc(fi, N.ast),
                   sample={"rule": "R1", "append": nm, "guards": sorted(map(str, facts))})
            ctx.ob("R1", f"{fi.qual}::{nm}-append::once", g.loop_of(N) is None, f"{fi.qual}: {nm} append inside a loop", loc(fi, N.ast))
        same = (g.dom(I, D) and g.pdom(D, I)) or (g.dom(D, I) and g.pdom(I, D))
        ctx.ob("R1", f"{fi.qual}::appends-paired", same, f"{fi.qual}: identifier and descriptor are not appended on exactly the same paths (lists go out of step)", loc(fi, D.ast))
        try:
            _what = ast.unparse(g.expand(ic.args[0], at=I))   # through a local alias (`ident = handler.spa_identifier`)
        except RecursionError:
            _what = ast.unparse(ic.args[0])
        ctx.ob("R1", f"{fi.qual}::appends-the-reply-identifier", _what == f"{h}.spa_identifier" or ast.unparse(ic.args[0]) == f"{h}.spa_identifier", f"{fi.qual}: seen-list gets `{_what}`", loc(fi, I.ast))
        # R3 found flag
        FLAG = found_flag_attr(repo)
        flags = [n for n in g.stmt_nodes() if assigns_attr(n, f"self.{FLAG}")] if FLAG is not None else []
        if FLAG is None:
            ctx.note(f"{fi.qual}: found flag not a boolean attribute - when discovery stops is decided by the discovery model (R9: requested / address-given / no-request scenarios)")
        else:
            ctx.ob("R3", f"{fi.qual}::flag-sites", len(flags) == 1, f"{fi.qual}: found flag written at {len(flags)} sites", fi.loc)
        for Fn in flags:
            ok = g.dom(D, Fn) and repo.try_fold(Fn.ast.value) is True
            facts = g.guard_atoms(Fn)
            ok2 = any(p and "self._spa_address is not None" in t and "self._spa_identifier is not None" in t and " or " in t for t, p in facts) or \
                any((not p) and t in ("self._spa_address is None", "self._spa_identifier is None") for t, p in facts)
            ctx.ob("R3", f"{fi.qual}::flag-after-append", ok, f"{fi.qual}: found flag set before the spa is listed (discover() could return an empty list)", loc(fi, Fn.ast))
            ctx.ob("R3", f"{fi.qual}::flag-only-when-requested", ok2, f"{fi.qual}: found flag set although neither address nor identifier was requested (a broadcast discovery would stop at the first spa); guards {sorted(facts)}", loc(fi, Fn.ast))
        # R6 descriptor
        dd = [n for n in g.stmt_nodes() if isinstance(n.ast, ast.Assign) and isinstance(n.ast.value, ast.Call) and call_name(n.ast.value) == "GeckoAsyncSpaDescriptor"]
        def _canon(a, at):
            try:
                return ast.unparse(g.expand(a, at=at))
            except RecursionError:
                return ast.unparse(a)
        ok = len(dd) == 1 and [_canon(a, dd[0]) for a in dd[0].ast.value.args] == [f"{h}.spa_identifier", f"{h}.spa_name", fi.node.args.args[2].arg]
        if dd:
            ctx.ob("R6", f"{fi.qual}::descriptor-fields", ok, f"{fi.qual}: descriptor is not built from (reply identifier, reply name, sender)", fi.loc)
        else:
            ctx.note(f"{fi.qual}: the descriptor is not built by a visible constructor call - that each listed spa carries the reply's identifier, name and sender is decided by the discovery model (R9: fields intact)")
        if ok:
            ctx.ob("R6", f"{fi.qual}::appends-that-descriptor", ast.unparse(dc.args[0]) == ast.unparse(dd[0].ast.targets[0]), "another object is listed", loc(fi, D.ast))
    dcls = repo.own_method("GeckoAsyncSpaDescriptor", "__init__")
    t = ast.unparse(dcls.node)
    ctx.ob("R6", "GeckoAsyncSpaDescriptor::keeps-fields", "self.identifier = spa_identifier" in t and "self.name = spa_name" in t and "self.ipaddress, self.port = sender" in t,
           "descriptor does not store identifier, name and address unchanged", dcls.loc)

    # sync twin (shorter): de-dup
    sfi = repo.own_method("GeckoLocator", "_on_discovered")
    sg = cfg_of(sfi)
    sh = sfi.node.args.args[1].arg
    for n, c in calls_named(sg, "append"):
        facts = sg.guard_atoms(n)
        ctx.ob("R1", f"{sfi.qual}::{receiver(c)}::not-seen-before", (f"{sh}.spa_identifier in self.spa_identifiers", False) in facts,
               f"{sfi.qual}: append to {receiver(c)} without the de-dup test", loc(sfi, n.ast))

    # ---- R4 termination loop ---------------------------------------------------------------------
    d = repo.own_method("GeckoAsyncLocator", "discover")
    gd = cfg_of(d)
    heads = [hd for hd in loop_heads(gd) if hd.kind == "test"]
    d_own = d
    if not heads:
        # the wait loop in a helper of discover() (awaited from it): the decision table is read there; that the start
        # stamp and the fresh list precede it is then decided by the discovery model's runs (R9)
        for n_ in walk_no_nested(d.node):
            if isinstance(n_, ast.Await) and isinstance(n_.value, ast.Call) and isinstance(n_.value.func, ast.Attribute) \
                    and isinstance(n_.value.func.value, ast.Name) and n_.value.func.value.id == "self":
                h_ = repo.all_methods(d.cls).get(n_.value.func.attr)
                if h_ is not None:
                    hh_ = [hd for hd in loop_heads(cfg_of(h_)) if hd.kind == "test"]
                    if len(hh_) == 1 and not heads:
                        d, gd, heads = h_, cfg_of(h_), hh_
    if not heads:
        ctx.note(f"{d.qual}: no wait loop visible in discover() or a helper it awaits - when the run ends is decided by the discovery model (R9) only")
    else:
        ctx.ob("R4", f"{d_own.qual}::one-loop", len(heads) == 1, f"{d.qual}: expected one wait loop", d.loc)
    if len(heads) == 1 and d is not d_own:
        hd = heads[0]
        body = gd.loop_body(hd)
        avoid = [x for x in body if x.suspends]
        ctx.ob("R4", f"{d_own.qual}::yields", hd not in gd.reach_from(hd, avoid=avoid), f"{d.qual}: an iteration without a suspension point starves the reply consumer", d.loc)
        wait_loop_decisions(ctx, repo, d, hd)
        d, gd = d_own, cfg_of(d_own)
    elif len(heads) == 1:
        hd = heads[0]
        body = gd.loop_body(hd)
        avoid = [x for x in body if x.suspends]
        ctx.ob("R4", f"{d.qual}::yields", hd not in gd.reach_from(hd, avoid=avoid), f"{d.qual}: an iteration without a suspension point starves the reply consumer", d.loc)
        wait_loop_decisions(ctx, repo, d, hd)
        STAMP = start_stamp_attr(repo)
        st = [n for n in gd.stmt_nodes() if assigns_attr(n, f"self.{STAMP}") and "monotonic" in n.text()]
        ctx.ob("R4", f"{d.qual}::start-stamp", bool(st) and all(gd.dom(s, hd) for s in st), f"{d.qual}: start time not stamped before the loop", d.loc)
        sp = [n for n in gd.stmt_nodes() if assigns_attr(n, "self._spas") and isinstance(n.ast.value, ast.List)]
        ctx.ob("R4", f"{d.qual}::fresh-list", bool(sp) and all(gd.dom(s, hd) for s in sp), f"{d.qual}: result list not initialised before the loop", d.loc)
    # age and the initial wait by interpretation: a locator built by its constructor, its start stamp (found by role) set
    # to 100 on a model clock
    from ..absint import ClassRef as _CR4, Interp as _I4, Native as _N4, Obj as _O4, PyRaise as _PR4, Undecided as _UD4
    age = repo.own_method("GeckoAsyncLocator", "age")
    het = repo.own_method("GeckoAsyncLocator", "has_had_enough_time")
    it4 = _I4(repo, max_depth=8)
    clock = {"t": 100.0}
    it4.call_hook = lambda _i, node, callee, a, k: (clock["t"] if getattr(callee, "name", "") == "time.monotonic" else NotImplemented)
    try:
        t_init = it4.eval(ast.parse("GeckoConfig.DISCOVERY_INITIAL_TIMEOUT_IN_SECONDS", mode="eval").body, {"__mod__": het.mod, "__class__": het.cls})
        tm4 = _O4(None, {"add_task": _N4(lambda a, k: None), "cancel_key_tasks": _N4(lambda a, k: None)}, name="taskman")
        loc4 = it4.apply(_CR4(repo.cls("GeckoAsyncLocator")), [tm4, _N4(lambda a, k: None, "event_handler")], {})
        it4.setattr(loc4, start_stamp_attr(repo), 100.0)
        obs = []
        for dt in (0.0, 2.5, t_init - 0.1, t_init, t_init + 0.1):
            clock["t"] = 100.0 + dt
            obs.append((dt, it4.getattr(loc4, "age"), it4.getattr(loc4, "has_had_enough_time")))
    except (_PR4, _UD4, TypeError) as e:
        raise AnalysisError(f"GeckoAsyncLocator.age / has_had_enough_time on the model clock: {e}")
    ctx.ob("R4", "age::monotonic-minus-start", all(abs(a_ - dt) < 1e-9 for dt, a_, _h in obs), f"age on a model clock: (seconds since the start stamp, age) = {[(dt, a_) for dt, a_, _h in obs]}", age.loc)
    ctx.ob("R4", "has_had_enough_time", all(h_ is (dt > t_init) for dt, _a, h_ in obs),
           f"has_had_enough_time at (seconds since start, answer) = {[(dt, h_) for dt, _a, h_ in obs]}: not exactly 'more than DISCOVERY_INITIAL_TIMEOUT ({t_init}s) have passed'", het.loc)
    # consumer wired
    ok = any(isinstance(n, ast.Call) and call_name(n) == "broadcast" and any(k.arg == "async_on_handled" and ast.unparse(k.value) == "self._async_on_discovered" for k in n.keywords) for n in ast.walk(d.node))
    ctx.ob("R1", f"{d.qual}::consumer-wired", ok, f"{d.qual}: hello consumer not wired to _async_on_discovered", d.loc)

    # ---- R5 clean-up on every exit --------------------------------------------------------------
    closers = [n for n, c in calls_named(gd, "close") if receiver(c) == "self._transport"]
    cancels = [n for n, c in calls_named(gd, "cancel_key_tasks") if c.args and repo.try_fold(c.args[0]) == "LOC"]
    acq = [n for n in gd.stmt_nodes() if "create_datagram_endpoint" in n.text()]
    # path rules over the awaits of discover() when the close / cancel calls are visible in it; in any shape the
    # discovery model (R9) decides the normal and the cancelled exits
    if not (closers and cancels and acq):
        ctx.note(f"{d.qual}: transport close / LOC cancel not visible as calls in the function body - decided on the discovery model (normal and cancelled runs)")
    if closers and cancels and acq:
        from .c10 import _escapes
        for kind, rel in (("close", closers), ("cancel-LOC", cancels)):
            # normal exits
            ok = gd.exit not in gd.reach_from(acq[0], avoid=rel, labels_skip=("exc",))
            ctx.ob("R5", f"{d.qual}::{kind}::on-normal-exit", ok, f"{d.qual}: can return normally without {kind}", d.loc)
            bad = []
            for s in gd.reach_from(acq[0]):
                if s.suspends and s not in rel:
                    for tnode, label in gd.succ[s]:
                        if label == "exc" and tnode not in rel and (tnode is gd.raise_ or _escapes(gd, tnode, rel)):
                            bad.append(s.lineno)
            ctx.ob("R5", f"{d.qual}::{kind}::on-cancellation", not bad, f"{d.qual}: cancelled at the await(s) on line(s) {sorted(set(bad))}, the function leaves without {kind}", d.loc)
    # the cancel itself: every live task of the domain is reached, also with finished tasks lying around (C10's registry model)
    from ..taskmodel import check_registry
    check_registry(ctx.borrowed("R5", "C10"), repo, "R3", pump_key="LOC", only=("forgotten",))
    # R6: the reply's identifier/name reach the descriptor intact: payload extraction is exact (shared with C04)
    from .c04 import hello_payload_extraction, text_parts
    hello_payload_extraction(ctx, repo, rule="R6")
    text_parts(ctx, repo)
    ctx.note("NOT decided: return times relative to the configured waits (clock).")
    ctx.rule("R7", "each reply is reported individually: the consume loop pairs every handled datagram with its own handled-callback (the locator reads the handler's single-slot identifier/name there)")
    from .c05 import consume_pairing
    consume_pairing(ctx, repo, "R7")
    ctx.rule("R8", "the blocking locator's discovery run, interpreted end to end on a model socket and clock with scripted replies: it returns as soon as the requested spa (by text or bytes identifier, or by address) has answered and not when another spa answers first, otherwise after the initial wait once any spa has answered, at the latest at the discovery timeout; each spa is listed once with identifier, name and address intact; the socket is closed on return")
    blocking_discovery_model(ctx, repo, "R8")
    ctx.rule("R9", "the awaitable locator's discovery run, interpreted end to end on a model event loop and clock with scripted replies (eight scripts): lists only the requested identifier when one is given, each spa once with its fields intact and one discovered-spa event each; returns as soon as the requested spa (or the spa at the given address) has answered, otherwise after the initial wait once any spa has answered, at the latest at the discovery timeout; empty strings mean no request; the endpoint is closed and the helper tasks' domain cancelled on return")
    async_discovery_model(ctx, repo, "R9", rule_filter="R2")   # also files the cancelled-run obligations of R5's clause under R9
    ctx.assume("asyncio runs one callback at a time (cooperative scheduling)")
    ctx.rule("R11", "each discovery run listens on its own receive queue: no constructor on the way to a discovery endpoint keeps a default-argument object (`queue=AsyncPeekableQueue()` is evaluated once, at definition) nor a class-level container in an instance attribute - replies left queued when one run ends would otherwise be read by the next run's endpoint as if they had just arrived: spas that did not answer are listed (possibly at a stale address) and a run nobody answered returns after the initial wait (C10.R8 borrowed)")
    from .c10 import no_shared_defaults as _nsd, shared_class_state as _scs
    _nsd(ctx.borrowed("R11", "C10"), repo, "R8")
    _scs(ctx.borrowed("R11", "C10"), repo, "R8", only_under="/driver/")
    ctx.rule("R12", "whatever the number of replies: the endpoint's receive queue hands the hello consumer every reply that arrived, oldest first, also when a hundred are waiting (the consumer takes one per wake-up) - a bounded container behind the queue drops the oldest waiting replies silently, and every re-broadcast refills it with the same tail of spas: the others are never listed (C07.R3's queue model borrowed)")
    from .c07 import nothing_queued_is_lost as _nql15
    _nql15(ctx.borrowed("R12", "C07"), repo, "R3")
    ctx.rule("R13", "every reply is claimed, whatever the spa is called: for names without, with one and with several `|`, empty and with Latin-1 letters, the reply the builder makes is accepted by a fresh hello handler and decodes to the identifier and name it was built from - on concrete bytes, so the frame test may be written any way (a pattern that allows one separator leaves `Hot|Tub` unclaimed: never listed, and on the awaitable locator every reply queued behind it is lost)")
    from .c04 import hello_replies_are_claimed as _hrc15
    _hrc15(ctx, repo, "R13")
