"""C19 - snapshot capture/replay: writer/reader format agreement and shipped snapshots.

Claimed (narrow): the log-line templates the shell writes align with the regex table
the snapshot reader applies (skeleton alignment of f-string/format templates with the
regex AST); block-dump writer/reader shapes agree; every shipped snapshot names
existing table modules and carries a full block.
NOT decided: byte-exact round trip of arbitrary blocks through repr/hex/re semantics.
"""
from __future__ import annotations

import ast
import re
from pathlib import Path

from ..core import AnalysisError
from ..facts import block_size, loc
from ..packs import tables
from ..src import Repo, call_name, const_text, walk_no_nested

INT_ATTRS = {"config_version", "log_version", "pack_type", "config_number"}
TEXT_ATTRS = {"pack", "revision"}


def template_of_format(repo, attr):
    """The template `<attr>` is formatted with in both spa classes, as a set of ('{} v{}.{}', holes).

    Decided by evaluating the assigned expression: every local of the assigning method stands for an
    object whose attributes read as distinct marker numbers, and the resulting text with the markers
    turned back into holes is the template.  Any route to the text (str.format, f-string, %, a helper
    function or static method) gives the same answer."""
    from ..absint import Interp, Obj, Undecided, PyRaise, _assigned_names
    tpls = set()
    for cname in ("GeckoSpa", "GeckoAsyncSpa"):
        c = repo.cls(cname)
        for m in repo.all_methods(c).values():
            for n in walk_no_nested(m.node):
                if not (isinstance(n, ast.Assign) and any(ast.unparse(t) == f"self.{attr}" for t in n.targets)):
                    continue
                v = n.value
                if isinstance(v, ast.Constant):
                    continue            # the initial None / ""
                it = Interp(repo, max_depth=8)
                counter = [7000]

                class Mark(int):
                    """stands for whatever the method read: a distinct number as a text, and reads through it are further marks"""
                    def __new__(cls):
                        counter[0] += 1
                        o = int.__new__(cls, counter[0])
                        o.attrs, o.items = {}, {}
                        return o

                    def __getitem__(self, k):
                        try:
                            return self.items.setdefault(k, Mark())
                        except TypeError:
                            return self.items.setdefault(repr(k), Mark())

                def hook(interp, base, a):
                    if isinstance(base, Mark):
                        if a not in base.attrs:
                            base.attrs[a] = Mark()
                        return base.attrs[a]
                    return NotImplemented
                it.attr_hook = hook
                a_ = m.node.args
                env = {"__class__": m.cls, "__mod__": m.mod, "__locals__": set()}
                for nm in set(_assigned_names(m.node)) | {p.arg for p in a_.posonlyargs + a_.args + a_.kwonlyargs}:
                    env[nm] = Mark()
                try:
                    text = it.eval(v, env)
                except (Undecided, PyRaise) as ex:
                    raise AnalysisError(f"C19.R1: cannot evaluate the text assigned to self.{attr} in {m.qual}: {ex}")
                if not isinstance(text, str):
                    raise AnalysisError(f"C19.R1: self.{attr} is assigned a {type(text).__name__} in {m.qual}, not a text")
                tpl, k = re.subn(r"70\d\d", "{}", text)
                tpls.add((tpl, k))
    return tpls


def fmt_skeleton(tpl, nargs, kind="int"):
    out = []
    pos = 0
    for m in re.finditer(r"\{(\d*)\}", tpl):
        if m.start() > pos:
            out.append(("lit", tpl[pos:m.start()]))
        out.append(("hole", kind))
        pos = m.end()
    if pos < len(tpl):
        out.append(("lit", tpl[pos:]))
    return out


def writer_skeletons(ctx, repo):
    """Skeleton of every line GeckoShell.version_strings writes -> list of skeletons"""
    vs = repo.method("GeckoShell", "version_strings")
    ret = [n for n in ast.walk(vs.node) if isinstance(n, ast.Return)]
    if len(ret) != 1:
        raise AnalysisError("GeckoShell.version_strings has several return statements - idiom not supported by C19.R1")
    from ..strtemplate import resolve
    lst = ret[0].value
    memo = None
    if not isinstance(lst, ast.List):
        if isinstance(lst, ast.Attribute) and isinstance(lst.value, ast.Name) and lst.value.id == "self":
            memo = lst.attr
        lst = resolve(repo, vs, ret[0].value)
    if not isinstance(lst, ast.List):
        raise AnalysisError("GeckoShell.version_strings does not return a list of f-strings (directly or through a local / attribute) - idiom not supported by C19.R1")
    if memo is not None:
        # the header is kept in an attribute: it describes the spa being snapshotted only if the cache is dropped
        # wherever the shell switches to another facade
        cls = vs.cls
        stale = []
        for m in cls.methods.values():
            sets_facade = [n for n in ast.walk(m.node) if isinstance(n, ast.Attribute) and isinstance(n.ctx, ast.Store) and n.attr == "facade" and isinstance(n.value, ast.Name) and n.value.id == "self"]
            clears = [n for n in ast.walk(m.node) if isinstance(n, ast.Attribute) and isinstance(n.ctx, ast.Store) and n.attr == memo and m is not vs]
            if sets_facade and not clears and m.name != "__init__":
                stale.append(m.qual)
        ctx.ob("R1", "version_strings::describes-the-live-spa", not stale,
               f"GeckoShell.version_strings returns the cached `self.{memo}`; {stale} switch(es) `self.facade` without dropping the cache, so a snapshot of the next spa is written with the previous spa's header (pack type, firmware, config/log versions) above its own block",
               vs.loc)
    out = []
    for e in lst.elts:
        if not isinstance(e, ast.JoinedStr):
            raise AnalysisError("version string is not an f-string")
        sk = []
        for v in e.values:
            if isinstance(v, ast.Constant):
                sk.append(("lit", v.value))
                continue
            attr = ast.unparse(v.value).split(".")[-1]
            if attr in ("intouch_version_en", "intouch_version_co", "version"):
                tpls = template_of_format(repo, attr)
                ctx.ob("R1", f"template::{attr}::single", len(tpls) == 1, f"spa.{attr} is formatted with {sorted(tpls)} (blocking and async spa must agree)", vs.loc)
                if len(tpls) != 1:
                    sk.append(("hole", "text"))
                    continue
                tpl, nargs = list(tpls)[0]
                sk.extend(fmt_skeleton(tpl, nargs))
            elif attr in INT_ATTRS:
                sk.append(("hole", "int"))
            else:
                sk.append(("hole", "text"))
        # merge adjacent literals
        merged = []
        for k, t in sk:
            if merged and k == "lit" and merged[-1][0] == "lit":
                merged[-1] = ("lit", merged[-1][1] + t)
            else:
                merged.append((k, t))
        out.append((ast.unparse(e), merged))
    return vs, out


def regex_skeleton(pattern):
    import re._parser as sre
    tree = sre.parse(pattern)
    out = []
    lit = ""

    def flush():
        nonlocal lit
        if lit:
            out.append(("lit", lit))
            lit = ""

    for op, av in tree:
        s = str(op)
        if s == "LITERAL":
            lit += chr(av)
            continue
        flush()
        if s == "SUBPATTERN":
            inner = av[3]
            kind = "other"
            if len(inner) == 1 and str(inner[0][0]) in ("MAX_REPEAT", "MIN_REPEAT"):
                lo, hi, body = inner[0][1]
                if len(body) == 1:
                    b = body[0]
                    if str(b[0]) == "ANY":
                        kind = "any"
                    elif str(b[0]) == "IN" and len(b[1]) == 1 and str(b[1][0][0]) == "CATEGORY":
                        cat = str(b[1][0][1])
                        kind = {"CATEGORY_DIGIT": "digits", "CATEGORY_WORD": "word"}.get(cat, "class")
                        if kind == "digits" and str(hi) != "MAXREPEAT":
                            kind = f"digits{{{lo},{hi}}}"
                    elif str(b[0]) == "IN":
                        kind = "class"
            out.append(("group", kind))
        elif s in ("MAX_REPEAT", "MIN_REPEAT"):
            lo, hi, body = av
            if len(body) == 1 and str(body[0][0]) == "IN" and len(body[0][1]) == 1 and str(body[0][1][0][1]) == "CATEGORY_SPACE":
                out.append(("ws", lo))
            else:
                out.append(("gap", "any"))
        elif s == "ANY":
            out.append(("gap", "one"))
        else:
            out.append(("gap", s))
    flush()
    return out


class Unsupported(Exception):
    pass


def align(writer, regex):
    """Does the regex skeleton read back the writer skeleton?  -> (ok, why).
    Writer is flattened to a stream of characters and holes; the regex to literal
    characters, capture groups and whitespace runs.  Regex tokens outside that
    fragment raise Unsupported (reported as ANALYSIS-ERROR, never as a violation)."""
    w = []
    for k, t in writer:
        if k == "lit":
            w.extend(t)
        else:
            w.append(("hole", t))
    r = []
    for k, t in regex:
        if k == "lit":
            r.extend(t)
        elif k == "group":
            r.append(("group", t))
        elif k == "ws":
            r.append(("ws", t))
        else:
            raise Unsupported(f"regex token {k}:{t}")
    if not r or not isinstance(r[0], str):
        raise Unsupported("regex does not start with a literal")
    # search semantics: try every start position in the writer stream
    first_lit = ""
    for x in r:
        if isinstance(x, str):
            first_lit += x
        else:
            break
    last_why = f"literal {first_lit!r} does not occur in the written line"
    for start in range(len(w)):
        wi = start
        ok = True
        why = ""
        for x in r:
            if isinstance(x, str):
                if wi < len(w) and w[wi] == x:
                    wi += 1
                else:
                    ok = False
                    got = w[wi] if wi < len(w) else "end of line"
                    why = f"regex expects {x!r} where the writer puts {got!r}"
                    break
            elif x[0] == "ws":
                n = 0
                while wi < len(w) and isinstance(w[wi], str) and w[wi].isspace():
                    wi += 1
                    n += 1
                if n < x[1]:
                    ok = False
                    why = "regex expects whitespace"
                    break
            else:
                if wi < len(w) and isinstance(w[wi], tuple):
                    hk = w[wi][1]
                    t = x[1]
                    if t == "digits" and hk != "int":
                        ok, why = False, "\\d+ group reads a non-integer value"
                        break
                    if t.startswith("digits{"):
                        ok, why = False, f"group {t} cannot read integers of arbitrary length"
                        break
                    if t == "other":
                        raise Unsupported("unrecognised group body")
                    wi += 1
                else:
                    ok = False
                    why = f"capture group ({x[1]}) has no value at this position of the written line"
                    break
        if ok:
            return True, ""
        if wi > start:
            last_why = why
    return False, last_why


def snapshot_round_trip(ctx, repo, rule):
    """Writer and reader composed by interpretation: GeckoShell.do_snapshot runs on a model facade (the logger calls
    are captured and rendered in the shell's two log formats), every line is fed to GeckoSnapshot.parse on a snapshot
    built by its constructor, and what the snapshot then reports is compared with what was written."""
    from ..absint import ClassRef, Interp, Obj, PyRaise, Undecided
    sh = repo.cls("GeckoShell")
    ds = repo.method("GeckoShell", "do_snapshot")
    cases = (
        ("all-byte-values", bytes(range(256)) * 4, "inYT", 12, (88, 15, 0), (89, 11, 0), 61, 59, "367 v2.0"),
        ("zeros-and-high-versions", bytes(1024), "inXM", 6, (255, 3, 12), (1, 0, 9), 255, 1, "186 v3.0"),
        ("text-like-bytes", (b"[]',x0 " * 147)[:1024], "MAS-IBC-32K", 10, (70, 14, 0), (69, 11, 0), 9, 9, "9 v1.1"),
    )
    n = 0
    for key, block, pack, ptype, en, co, cfg, log, ver in cases:
        it = Interp(repo, max_depth=14)
        lines = []

        def log_hook(level, args, lines=lines):
            if not args:
                return
            msg = args[0]
            if isinstance(msg, str) and len(args) > 1:
                try:
                    msg = msg % tuple(args[1:])
                except (TypeError, ValueError):
                    msg = f"{msg} {args[1:]}"
            lines.append(str(msg))
        it.log_hook = log_hook
        spa = Obj(None, {"revision": "19.00", "intouch_version_en": "{0} v{1}.{2}".format(*en), "intouch_version_co": "{0} v{1}.{2}".format(*co),
                         "pack": pack, "version": ver, "config_number": 4, "config_version": cfg, "log_version": log, "pack_type": ptype,
                         "struct": Obj(None, {"status_block": block}, name="struct"), "accessors": {}}, name="spa")
        shell = Obj(sh, {"facade": Obj(None, {"spa": spa}, name="facade")}, name="shell")
        try:
            it.steps = 0
            it.call(ds, shell, ["Heating (eco)"])
        except PyRaise as e:
            ctx.ob(rule, f"round-trip::{key}::writer", False, f"GeckoShell.do_snapshot raises {e.what} on the model facade", ds.loc)
            continue
        except Undecided as e:
            raise AnalysisError(f"GeckoShell.do_snapshot on the model facade: {e}")
        ctx.ob("R1", f"do_snapshot::writes-header-versions-block::{key}", len(lines) >= 3 and lines[0] == "Snapshot (Heating (eco))" and sum(1 for ln in lines if ln.startswith("[")) == 1,
               f"GeckoShell.do_snapshot writes {[ln[:40] for ln in lines[:3]]}... ({len(lines)} lines): expected the `Snapshot (<name>)` header first, the version lines, and one block line", ds.loc)
        ctx.ob("R2", f"writer::hex-list-of-block::{key}", bool(lines) and lines[-1] == str([hex(b) for b in block]),
               f"GeckoShell.do_snapshot does not end with the block as the list of hex(b) for every byte (last line {lines[-1][:60] if lines else None!r}...)", ds.loc)
        for fmt_name, fmt in (("logfile", "2020-12-08 19:53:28,310 geckolib.utils.shell INFO {}\n"), ("basic", "INFO:geckolib.utils.shell:{}\n")):
            it2 = Interp(repo, max_depth=14)
            try:
                snap = it2.apply(ClassRef(repo.cls("GeckoSnapshot")), [], {})
                for ln in lines:
                    it2.steps = 0
                    it2.call(repo.method("GeckoSnapshot", "parse"), snap, [fmt.format(ln)])
                got = {"bytes": it2.getattr(snap, "bytes"), "packtype": it2.getattr(snap, "packtype"), "intouch_EN": it2.getattr(snap, "intouch_EN"),
                       "intouch_CO": it2.getattr(snap, "intouch_CO"), "config_version": it2.getattr(snap, "config_version"), "log_version": it2.getattr(snap, "log_version"),
                       "name": it2.getattr(snap, "name")}
            except PyRaise as e:
                got = {"raises": e.what}
            except Undecided as e:
                raise AnalysisError(f"GeckoSnapshot.parse on the written lines: {e}")
            want = {"bytes": block, "packtype": pack, "intouch_EN": en, "intouch_CO": co, "config_version": cfg, "log_version": log, "name": "Heating (eco)"}
            n += 1
            diff = {k: (got.get(k) if k != "bytes" else (len(got.get(k) or b""), (got.get(k) or b"")[:8])) for k in want if got.get(k) != want[k]} if "raises" not in got else got
            ctx.ob(rule, f"round-trip::{key}::{fmt_name}", got == want,
                   f"a snapshot written by GeckoShell.do_snapshot ({key}: pack {pack}, EN {en}, CO {co}, config {cfg}, log {log}, {len(block)} block bytes) and read back by GeckoSnapshot.parse in the {fmt_name} log format differs in {diff}",
                   repo.method("GeckoSnapshot", "parse").loc, sample={"rule": rule, "case": key, "format": fmt_name, "lines_written": len(lines)})
    ctx.floor(rule, "snapshot round trips interpreted", n, 6)


def traffic_log_round_trip(ctx, repo, rule):
    """R3 by interpretation: a 1024-byte block is cut into 39-byte STATV segments by the library's own builder
    (GeckoStatusBlockProtocolHandler.response inside a <PACKT> frame), each datagram is rendered the way the debug log
    shows received bytes (repr of the bytes in a log line), and every line is fed to GeckoSnapshot.parse on a snapshot
    built by its constructor: the snapshot's bytes are the block.  Blocks: every byte value (quotes, backslashes,
    newlines included), zeros, text that looks like tags and list punctuation."""
    from ..absint import ClassRef, Interp, Obj, PyRaise, Undecided
    H = "GeckoStatusBlockProtocolHandler"
    cases = (("all-byte-values", bytes(range(256)) * 4), ("zeros", bytes(1024)), ("tag-like-text", (b"</DATAS>'\\x27 STATV [0x1, '0x2']\n" * 40)[:1024]),
             ("backslash-then-apostrophe", (b"\\'ab\\\\'c" * 120)[:1024]), ("both-quotes-and-backslashes", (b"\"\\'x'\\\\\"" * 130)[:1024]))
    # ... and other segmentations of the same block (the property says ALL segmentations): 4-byte segments give 256 of
    # them - every value a segment index byte can take passes through the reader
    cases = tuple((k, b, 39) for k, b in cases) + (("all-byte-values::4-byte-segments", bytes(range(256)) * 4, 4), ("zeros::8-byte-segments", bytes(1024), 8))
    n = 0
    for key, block, seg in cases:
        it = Interp(repo, max_depth=14)
        lines = []
        try:
            nseg = (len(block) + seg - 1) // seg
            for i in range(nseg):
                data = block[i * seg:(i + 1) * seg]
                msg = it.call(repo.method(H, "response"), None, [i, (i + 1) % nseg, data], {"parms": ("10.0.0.5", 10022, b"SPA-ID", b"IOS-CLIENT")})
                wire = it.getattr(msg, "send_bytes")
                if not isinstance(wire, (bytes, bytearray)):
                    raise Undecided(f"send_bytes of a concrete segment is {type(wire).__name__}")
                lines.append(f"2020-12-08 19:53:28,310 geckolib.driver.udp_socket DEBUG Received {bytes(wire)!r} from ('10.0.0.5', 10022)\n")
            snap = it.apply(ClassRef(repo.cls("GeckoSnapshot")), [], {})
            for ln in lines:
                it.steps = 0
                it.call(repo.method("GeckoSnapshot", "parse"), snap, [ln])
            got = it.getattr(snap, "bytes")
        except PyRaise as e:
            got = f"raises {e.what}"
        except Undecided as e:
            raise AnalysisError(f"traffic-log round trip ({key}): {e}")
        n += 1
        ok = isinstance(got, (bytes, bytearray)) and bytes(got) == block
        first = next((i for i in range(min(len(got), len(block))) if got[i] != block[i]), None) if isinstance(got, (bytes, bytearray)) else None
        ctx.ob(rule, f"traffic-log::{key}", ok,
               f"a traffic log of {len(lines)} STATV datagrams carrying a {len(block)}-byte block ({key}) read by GeckoSnapshot.parse gives "
               f"{(str(len(got)) + ' bytes, first difference at ' + str(first)) if isinstance(got, (bytes, bytearray)) else got!r}: the raw traffic log does not reassemble to the transferred block",
               repo.method("GeckoSnapshot", "parse").loc, sample={"rule": rule, "case": key, "datagrams": len(lines)})
    ctx.floor(rule, "traffic logs interpreted", n, 7)


def firmware_strings(ctx, repo, rule):
    """the version lines of a snapshot are written from the connection's intouch_version_en / _co strings: on both stacks
    the version step of the handshake is interpreted with a reply whose six numbers are pairwise distinct - the strings
    must be '<EN build> v<EN major>.<EN minor>' and '<CO build> v<CO major>.<CO minor>' (what GeckoSnapshot reads back as
    the firmware tuples)"""
    from ..absint import Interp, Native, Obj, Opaque, PyRaise, Undecided
    from ..facts import ConnectionModel
    from .c16 import build_instance
    reply = {"en_build": 70, "en_major": 14, "en_minor": 1, "co_build": 69, "co_major": 11, "co_minor": 2}
    want = ("70 v14.1", "69 v11.2")
    # blocking stack: GeckoSpa._on_version_received(handler, sender)
    it = Interp(repo, max_depth=12)
    spa = build_instance(repo, it, "GeckoSpa")
    for nm in ("queue_send", "add_receive_handler"):
        spa.attrs[nm] = Native(lambda a, k: None, nm)
    fi = repo.method("GeckoSpa", "_on_version_received")
    n_extra = len(fi.node.args.args) - 2
    try:
        it.call(fi, spa, [Obj(None, dict(reply), name="version-reply")] + [("10.0.0.5", 10022, b"S", b"C")] * max(n_extra, 0))
    except PyRaise:
        pass      # what follows (the next request of the handshake) is not this rule's subject
    except Undecided as e:
        if "intouch_version_co" not in spa.attrs:
            raise AnalysisError(f"GeckoSpa._on_version_received on the model connection: {e}")
    got = (spa.attrs.get("intouch_version_en"), spa.attrs.get("intouch_version_co"))
    ctx.ob(rule, "blocking::firmware-strings-from-the-version-reply", got == want,
           f"GeckoSpa._on_version_received with a reply EN 70 v14.1 / CO 69 v11.2 stores {got}, expected {want}: the snapshot's firmware lines are written from these strings", fi.loc,
           sample={"rule": rule, "stack": "blocking", "strings": [str(g) for g in got]})
    # awaitable stack: the version step of _connect on the connection model

    def answer(req):
        if isinstance(req, Obj) and req.cls is not None and req.cls.short == "GeckoVersionProtocolHandler":
            return Obj(None, dict(reply), name="version-reply")
        return None
    cm = ConnectionModel(repo, answer=answer)
    got = (cm.spa.attrs.get("intouch_version_en"), cm.spa.attrs.get("intouch_version_co"))
    ctx.ob(rule, "awaitable::firmware-strings-from-the-version-reply", got == want,
           f"GeckoAsyncSpa._connect with a version reply EN 70 v14.1 / CO 69 v11.2 stores {got}, expected {want}", repo.method("GeckoAsyncSpa", "_connect").loc)


def log_file_model(ctx, repo, rule):
    """GeckoSnapshot.parse_log_file by interpretation on a model file: two snapshots as the (interpreted) shell writes them
    in its logfile format, with debug chatter before, between and after them and the second one dangling at the end of the
    file: exactly two snapshots come back, each with its own name and block."""
    from ..absint import Interp, Obj, PyRaise, Undecided
    sh = repo.cls("GeckoShell")
    ds = repo.method("GeckoShell", "do_snapshot")
    blocks = {"First one": bytes(range(256)) * 4, "Second (dangling)": bytes(reversed(range(256))) * 4}
    lines = ["2020-12-08 19:53:00,001 geckolib.driver.udp_socket DEBUG Sending b'<PACKT>...</PACKT>' to ('10.0.0.5', 10022)\n"]
    for name, block in blocks.items():
        it = Interp(repo, max_depth=14)
        out = []

        def log_hook(level, args, out=out):
            if not args:
                return
            msg = args[0]
            if isinstance(msg, str) and len(args) > 1:
                try:
                    msg = msg % tuple(args[1:])
                except (TypeError, ValueError):
                    msg = f"{msg} {args[1:]}"
            out.append(str(msg))
        it.log_hook = log_hook
        spa = Obj(None, {"revision": "19.00", "intouch_version_en": "88 v15.0", "intouch_version_co": "89 v11.0", "pack": "inYT", "version": "367 v2.0", "config_number": 4,
                         "config_version": 61, "log_version": 59, "pack_type": 12, "struct": Obj(None, {"status_block": block}, name="struct"), "accessors": {}}, name="spa")
        shell = Obj(sh, {"facade": Obj(None, {"spa": spa}, name="facade")}, name="shell")
        try:
            it.call(ds, shell, [name])
        except (PyRaise, Undecided) as e:
            raise AnalysisError(f"GeckoShell.do_snapshot on the model facade: {e}")
        lines += [f"2020-12-08 19:53:28,310 geckolib.utils.shell INFO {ln}\n" for ln in out]
        if name == "First one":
            lines.append("2020-12-08 19:53:29,000 geckolib.driver.udp_socket DEBUG Received b'<PACKT>...</PACKT>' from ('10.0.0.5', 10022)\n")

    class _File(list):
        def enter(self, interp):
            return self

        def exit(self, interp, exc):
            return False
    it2 = Interp(repo, max_depth=14)
    it2.call_hook = lambda _i, node, callee, a, k: (_File(lines) if getattr(callee, "name", "") == "open" else NotImplemented)
    plf = repo.method("GeckoSnapshot", "parse_log_file")
    try:
        snaps = it2.call(plf, None, ["shell.log"])
        got = [(it2.getattr(s_, "name"), it2.getattr(s_, "bytes")) for s_ in list(snaps)]
    except PyRaise as e:
        got = f"raises {e.what}"
    except Undecided as e:
        raise AnalysisError(f"GeckoSnapshot.parse_log_file on the model file: {e}")
    # the same path read again after the file was recorded anew (one snapshot, the other block under the first name): the
    # reader must give what the file holds NOW
    first_name = next(iter(blocks))
    new_block = bytes((7 * i + 1) % 256 for i in range(1024))
    marker, relines = f"Snapshot ({first_name})", []
    taking = False
    for ln in lines:
        if "INFO" in ln and "Snapshot (" in ln:
            taking = marker in ln
        if taking and "INFO" in ln:
            relines.append(ln)
    old_block = blocks[first_name]
    old_text = str([hex(b) for b in old_block])
    relines = [ln.replace(old_text, str([hex(b) for b in new_block])) for ln in relines]
    again = None
    if any(str([hex(b) for b in new_block]) in ln for ln in relines):
        it2.call_hook = lambda _i, node, callee, a, k: (_File(relines) if getattr(callee, "name", "") == "open" else NotImplemented)
        try:
            snaps2 = it2.call(plf, None, ["shell.log"])
            again = [(it2.getattr(s_, "name"), it2.getattr(s_, "bytes")) for s_ in list(snaps2)]
        except PyRaise as e:
            again = f"raises {e.what}"
        except Undecided as e:
            raise AnalysisError(f"GeckoSnapshot.parse_log_file on the re-recorded model file: {e}")
        ctx.ob(rule, "parse_log_file::same-path-read-again", again == [(first_name, new_block)],
               f"the same log path parsed a second time, after the file was recorded anew with ONE snapshot holding another block, gives "
               f"{[(n_, len(b_) if isinstance(b_, (bytes, bytearray)) else b_, 'new block' if b_ == new_block else 'not the new block') for n_, b_ in again] if isinstance(again, list) else again}: "
               f"the reader answers from what it read before, not from the file (a simulator that loads the re-recorded log keeps serving the old block)", plf.loc)
    else:
        ctx.note("C19 log-file model: the block dump of the shell's snapshot lines is not the hex-list text the re-recording scenario edits; the same-path-read-again scenario is skipped")
    want = list(blocks.items())
    ctx.ob(rule, "parse_log_file::two-snapshots-in-one-log", got == want,
           f"a log file holding two snapshots written by the shell (debug lines before, between and after; the second one ends the file) is read as "
           f"{[(n_, len(b_) if isinstance(b_, (bytes, bytearray)) else b_) for n_, b_ in got] if isinstance(got, list) else got}, expected {[(n_, len(b_)) for n_, b_ in want]} with the blocks intact",
           plf.loc, sample={"rule": rule, "lines": len(lines), "snapshots": len(got) if isinstance(got, list) else str(got)})


def reader_table(repo):
    """[(pattern text, handler method name)] of the snapshot reader, in table order, however the table is kept: a list
    of (pattern, bound method) pairs built in __init__, or a class-level tuple of records holding a compiled pattern and
    a method name.  The snapshot is built by its constructor (by interpretation) and the table is found by role: the
    longest sequence attribute whose every row has a regular expression and names a method of the class."""
    from ..absint import BoundMethod, ClassRef, Interp, Obj, PyRaise, Undecided
    cls = repo.cls("GeckoSnapshot")
    it = Interp(repo, max_depth=10)
    try:
        snap = it.apply(ClassRef(cls), [], {})
    except (PyRaise, Undecided) as e:
        raise AnalysisError(f"GeckoSnapshot() cannot be constructed by interpretation: {e}")
    cands = list(snap.attrs.values())
    for k in repo.mro(cls):
        for nm in k.consts:
            try:
                cands.append(it._class_value(k, nm))
            except (PyRaise, Undecided):
                continue
    for nm in cls.mod.consts:      # ... or a module-level table next to the class
        try:
            cands.append(it._module_value(cls.mod, nm))
        except (PyRaise, Undecided, Exception):  # noqa: BLE001 - a module constant the interpreter cannot evaluate is not the table
            continue
    methods = {m for k in repo.mro(cls) for m in k.methods}

    def row(r):
        parts = list(r) if isinstance(r, (tuple, list)) else (list(r._tuple()) if isinstance(r, Obj) and r.attrs.get("__fields__") else
                                                               ([v for kk, v in r.attrs.items() if not kk.startswith("__")] if isinstance(r, Obj) else None))
        if not parts:
            return None
        pat = next((p for p in parts if isinstance(p, str) and p not in methods and any(ch in p for ch in "()\\[")), None)
        if pat is None:
            comp = next((p for p in parts if type(p).__name__ == "Pattern"), None)
            pat = comp.pattern if comp is not None else None
        fn = next((p.fi.name for p in parts if isinstance(p, BoundMethod)), None) or next((p for p in parts if isinstance(p, str) and p in methods), None)
        return (pat, fn) if isinstance(pat, str) and fn else None
    best = []
    for c in cands:
        if isinstance(c, (list, tuple)) and len(c) >= 8:
            rows = [row(r) for r in c]
            if all(rows) and len(rows) > len(best):
                best = rows
    if not best:
        raise AnalysisError("GeckoSnapshot: reader table (rows of regular expression + handler method) not found by role")
    return best


def check(ctx):
    repo = Repo()
    T = tables(repo)
    ctx.rule("R1", "header lines: every version line the shell writes (with the spa's '{0} v{1}.{2}' templates inlined) is read back by the regex of GeckoSnapshot._funcs that names it: literal skeletons align, every hole falls in a capture group whose class admits it")
    ctx.rule("R2", "block dump: writer logs [hex(b) for b in block]; reader's list regex admits hex digits, x, quotes, commas, spaces and parses each element with int(.., 16) after stripping the quotes")
    ctx.rule("R3", "traffic-log path: STATV segments are decoded by GeckoStatusBlockProtocolHandler.handle and joined when next == 0")
    ctx.rule("R4", "shipped snapshots: each file yields a pack type and config/log versions that name three existing table modules, and a block of exactly the status-block size with bytes <= 0xff")

    ctx.rule("R5", "simulator load: GeckoSimulator.set_snapshot imports geckolib.driver.packs.<packtype.lower()>, ...-cfg-<config_version>, ...-log-<log_version>, all read from the snapshot being loaded (symbolic string templates)")
    from ..modlookup import lookup_obligations
    ctx.floor("R5", "module lookups analysed", lookup_obligations(ctx, repo, "GeckoSimulator.set_snapshot", "R5"), 3)

    ctx.rule("R6", "served unchanged: the simulator's answer to a status-block request delivers exactly the requested bytes of the loaded block, for every length from several starts (C01's concrete segment-chain interpretation borrowed)")
    from .c01 import simulator_chain_concrete
    simulator_chain_concrete(ctx.borrowed("R6", "C01"), repo, repo.method("GeckoSimulator", "_on_status_block"))

    ctx.rule("R7", "... to a client unchanged: what both clients install from the served segment chain is the chain's bytes, in order, once - also when a segment is lost and the transfer is asked for again (C01's install / append / fresh-assembly obligations on both structure classes borrowed)")
    from . import c01 as _c01
    _c01.sync_assembly(ctx.borrowed("R7", "C01", only=("R1", "R2", "R3", "R4")), repo)
    _c01.async_assembly(ctx.borrowed("R7", "C01", only=("R1", "R2", "R3", "R4")), repo)
    ctx.rule("R9", "... through the packet layer unchanged: a frame built by send_bytes and handed to handle() gives back exactly the payload, for any payload bytes (C04's end-to-end frame round trip on symbolic payloads borrowed; strip-like calls on a payload are adversarial)")
    from .c04 import framing as _framing
    _framing(ctx.borrowed("R9", "C04", only=("R4",), key_contains="frame-round-trip"), repo)
    ctx.rule("R11", "the simulator understands every request for the block: the STATU request a client builds is decoded by the peer to the same sequence number, start and length for EVERY value of those fields, and a STATV segment to the same index / next / payload (C04's symbolic round trip of the status-block messages borrowed) - a request whose number happens to spell a letter of the verb must still be served")
    from .c04 import round_trips as _rt19
    try:
        _rt19(ctx.borrowed("R11", "C04", only=("R2",), key_prefix="GeckoStatusBlockProtocolHandler"), repo)
    except AnalysisError as e:
        ctx.error(f"R11 (C04.R2 borrowed): {e}")      # reported, and the rules below still run
    ctx.rule("R12", "each snapshot assembles its own block: no class of the tools keeps per-snapshot data (the list of received segments) in a class-level container its methods fill through `self` - one list for every snapshot of the process makes the second connection of a traffic log start with the first one's bytes (C10.R8 borrowed)")
    from .c10 import shared_class_state as _scs19
    _scs19(ctx.borrowed("R12", "C10"), repo, "R8", only_under="/utils/")
    ctx.rule("R10", "the firmware a snapshot records is the connection's: on both stacks the version step of the handshake, interpreted with a reply of six pairwise distinct numbers, stores '<EN build> v<major>.<minor>' and '<CO build> v<major>.<minor>' - the strings the shell writes and the reader parses back")
    firmware_strings(ctx, repo, "R10")
    ctx.rule("R8", "writer and reader composed by interpretation: three snapshots (all byte values / zeros with extreme versions / bytes that look like list punctuation, with a hyphenated pack name) written by GeckoShell.do_snapshot on a model facade and read back line by line through GeckoSnapshot.parse, in both log formats: bytes, pack type, firmware EN/CO, config and log versions and the name come back exactly")
    snapshot_round_trip(ctx, repo, "R8")
    snap_init = repo.method("GeckoSnapshot", "__init__")
    table = reader_table(repo)
    ctx.floor("R1", "reader regex table rows", len(table), 12)
    for pat, fn in table:
        try:
            re.compile(pat)
            ok = True
        except re.error:
            ok = False
        ctx.ob("R1", f"regex::{fn}::compiles", ok, f"reader regex {pat!r} does not compile", snap_init.loc)
    by_fn = {fn: pat for pat, fn in table}

    vs, writers = writer_skeletons(ctx, repo)
    pairs = {"intouch version EN": "_re_intouch_en", "intouch version CO": "_re_intouch_co", "Spa pack": "_re_spa_pack",
             "Config version": "_re_config_version", "Log version": "_re_log_version"}
    n_al = 0
    for text, sk in writers:
        first = sk[0][1] if sk and sk[0][0] == "lit" else ""
        for prefix, fn in pairs.items():
            if first.startswith(prefix) or (prefix in by_fn.get(fn, "") and first.strip().startswith(prefix.split()[0]) and prefix.split()[0] in ("intouch",) and prefix in first):
                pat = by_fn.get(fn)
                if pat is None:
                    ctx.ob("R1", f"{fn}::present", False, f"reader table has no row {fn}", snap_init.loc)
                    continue
                try:
                    ok, why = align(sk, regex_skeleton(pat))
                except Unsupported as e:
                    ctx.error(f"C19.R1: cannot align {fn} ({pat!r}): {e}")
                    continue
                n_al += 1
                ctx.ob("R1", f"line::{prefix}", ok, f"the line `{text}` written by the shell is not read back by {fn} ({pat!r}): {why}", vs.loc,
                       sample={"rule": "R1", "writer": text, "writer_skeleton": sk, "reader": pat, "aligned": ok})
    # each reader row of the snapshot set must have a writer line
    for prefix, fn in pairs.items():
        ok = any(sk and sk[0][0] == "lit" and sk[0][1].startswith(prefix) for _, sk in writers)
        ctx.ob("R1", f"writer-has::{prefix}", ok, f"the shell no longer writes a `{prefix} ...` line that {fn} expects", vs.loc)
    ctx.floor("R1", "aligned writer/reader line pairs", n_al, 5)
    # "Snapshot (%s)"
    ds = repo.method("GeckoShell", "do_snapshot")
    def _text19(e_):
        v_ = e_.value if isinstance(e_, ast.Constant) else repo.try_fold(e_, ds.mod, ds.cls)     # a literal, or a named constant holding it
        return v_ if isinstance(v_, str) else None
    hdr = [n for n in ast.walk(ds.node) if isinstance(n, ast.Call) and n.args and "Snapshot" in (_text19(n.args[0]) or "")]   # logger.info / a local bound to it
    ok = len(hdr) == 1 and _text19(hdr[0].args[0]) == "Snapshot (%s)"
    ctx.ob("R1", "line::Snapshot-header", ok and "_re_snapshot_alt" in by_fn and regex_skeleton(by_fn["_re_snapshot_alt"]) == [("lit", "Snapshot ("), ("group", "any"), ("lit", ")")],
           "the `Snapshot (<name>)` header written by do_snapshot is not what _re_snapshot_alt reads", ds.loc)
    # the name survives: the header line as the shell's two log formats carry it, for names with brackets and blanks,
    # read by every snapshot-header row of the table in table order (each matching row stores, the last one wins)
    name_rows = [(pat, fn) for pat, fn in table if fn in ("_re_snapshot", "_re_snapshot_alt")]
    ctx.floor("R1", "snapshot-header reader rows", len(name_rows), 1)
    if ok and name_rows:
        for probe in ("Heating", "P1 (high) + blower", "a)b", "((x", "spa) Snapshot (2"):
            for fmt_name, line in (("logfile", f"2020-12-08 19:53:28,310 geckolib.utils.shell INFO Snapshot ({probe})\n"), ("basic", f"INFO:geckolib.utils.shell:Snapshot ({probe})\n")):
                got = None
                for pat, fn in name_rows:
                    m_ = re.search(pat, line, re.DOTALL)
                    if m_:
                        got = m_.groups()[-1]
                ctx.ob("R1", f"line::Snapshot-header::name::{fmt_name}::{probe}", got == probe,
                       f"a snapshot named {probe!r}, written as {line.strip()!r}, is read back with the name {got!r} (rows {[fn for _, fn in name_rows]})", snap_init.loc,
                       sample={"rule": "R1", "name": probe, "format": fmt_name, "read_back": got} if probe == "a)b" else None)
    # parse_log_file: a snapshot starts at a line containing "Snapshot" and takes lines containing "INFO"
    log_file_model(ctx, repo, "R1")

    # ---- R2 block dump: what the writer logs is checked on the interpreted writer (snapshot_round_trip); here the reader
    # (its pattern applied to the dumps the writer produces, and its handler interpreted on what the pattern captured)
    pat = by_fn.get("_re_data")
    rd = repo.method("GeckoSnapshot", "_re_data")
    from ..absint import ClassRef as _CR2, Interp as _I2, PyRaise as _PR2, Undecided as _UD2
    for key, block in (("all-byte-values", bytes(range(256)) * 4), ("zeros", bytes(1024)), ("one-byte", b"\x05")):
        dump = str([hex(b) for b in block])
        m_ = re.search(pat, "INFO:geckolib.utils.shell:" + dump + "\n", re.DOTALL) if pat is not None else None
        ctx.ob("R2", f"reader::list-regex-admits-dump::{key}", m_ is not None and m_.group(0) == dump,
               f"the block-dump row {pat!r} applied to the dump of a {len(block)}-byte block ({key}) matches {m_.group(0)[:40] + '...' if m_ else None!r}, not the whole list", snap_init.loc,
               sample={"rule": "R2", "regex": pat, "case": key})
        if m_ is None:
            continue
        it2 = _I2(repo, max_depth=8)
        try:
            snap2 = it2.apply(_CR2(repo.cls("GeckoSnapshot")), [], {})
            it2.call(rd, snap2, [m_.groups()])
            got2 = it2.getattr(snap2, "bytes")
        except _PR2 as e:
            got2 = f"raises {e.what}"
        except _UD2 as e:
            raise AnalysisError(f"GeckoSnapshot._re_data on a captured dump: {e}")
        ctx.ob("R2", f"reader::parses-hex-elements::{key}", isinstance(got2, (bytes, bytearray)) and bytes(got2) == block,
               f"_re_data given what the block-dump row captured from the dump of a {len(block)}-byte block ({key}) stores {got2 if isinstance(got2, str) else (len(got2), bytes(got2[:8]))!r}: not the block", rd.loc)

    # ---- R3 traffic log ---------------------------------------------------------------------------
    traffic_log_round_trip(ctx, repo, "R3")
    ok = True
    ctx.ob("R3", "regex::segment", by_fn.get("_re_data_segment") == r"(STATV.*)</DATAS>", f"segment regex is {by_fn.get('_re_data_segment')!r}", snap_init.loc)

    # ---- R4 shipped snapshots ------------------------------------------------------------------------
    BLOCK = block_size(repo)
    sdir = repo.root / "tests" / "snapshots"
    files = sorted(sdir.glob("*.snapshot")) if sdir.is_dir() else []
    ctx.floor("R4", "shipped snapshot files", len(files), 20)
    rx = {fn: re.compile(p, re.DOTALL) for p, fn in table}
    for f in files:
        lines = f.read_text(errors="replace").splitlines()
        pack = cfgv = logv = None
        blocks = []
        n_seg = 0
        for ln in lines:
            m = rx["_re_spa_pack"].search(ln) if "_re_spa_pack" in rx else None
            if m:
                pack = m.group(1)
            m = rx["_re_spa_pack_type"].search(ln) if "_re_spa_pack_type" in rx else None
            if m:
                pack = m.group(1)
            m = rx["_re_config_version"].search(ln)
            if m:
                cfgv = int(m.group(1))
            m = rx["_re_log_version"].search(ln)
            if m:
                logv = int(m.group(1))
            m = rx["_re_config_and_log"].search(ln) if "_re_config_and_log" in rx else None
            if m:
                cfgv, logv = int(m.group(2)), int(m.group(3))
            m = rx["_re_data"].search(ln)
            if m and "0x" in m.group(1):
                try:
                    blocks.append([int(b.strip()[1:-1], 16) for b in m.group(1).split(",")])
                except ValueError:
                    blocks.append(None)
            if rx["_re_data_segment"].search(ln):
                n_seg += 1
        key = f.name
        ctx.ob("R4", f"{key}::identifies-pack", pack is not None and cfgv is not None and logv is not None,
               f"{key}: pack type / config / log version not found (pack={pack}, cfg={cfgv}, log={logv})", str(f))
        if pack is not None and cfgv is not None and logv is not None:
            p = pack.lower()
            ok = p in T.modules and f"{p}-cfg-{cfgv}" in T.modules and f"{p}-log-{logv}" in T.modules
            ctx.ob("R4", f"{key}::modules-exist", ok, f"{key}: names {p}, {p}-cfg-{cfgv}, {p}-log-{logv} which are not all shipped table modules: the simulator cannot load it", str(f),
                   sample={"rule": "R4", "file": key, "pack": p, "cfg": cfgv, "log": logv, "blocks": len(blocks), "segments": n_seg} if "Pump1Hi" in key or "Heating" in key else None)
        if blocks:
            ok = all(b is not None and len(b) == BLOCK and all(0 <= x <= 255 for x in b) for b in blocks)
            ctx.ob("R4", f"{key}::full-block", ok, f"{key}: block dump(s) with lengths {[len(b) if b else None for b in blocks]} (expected {BLOCK} bytes each)", str(f))
        else:
            ctx.ob("R4", f"{key}::has-block-or-segments", n_seg > 0, f"{key}: neither a block dump nor STATV segments", str(f))
    ctx.note("NOT decided: byte-exact round trip of arbitrary blocks/version tuples through repr/hex/str/re semantics (values), and re-assembly of arbitrary segmentations of a traffic log.")
    ctx.trusted.append("re._parser / re on constants extracted from the source and on the shipped data files")
    ctx.rule("R13", "one session, one log: the handler the tools' `logfile` command installs writes ONE file - a snapshot is eleven separate log records (header, nine version lines, the block dump) and the reader works per file, so a handler that rolls over at record boundaries (RotatingFileHandler, TimedRotatingFileHandler) can cut a snapshot in two: the header ends one file, the block dump starts the next, and the block the shell wrote parses back from neither")
    n13 = 0
    for fi13 in repo.all_functions():
        if "/utils/" not in "/" + fi13.mod.rel:
            continue
        for n_ in walk_no_nested(fi13.node):
            if isinstance(n_, ast.Call):
                nm_ = ast.unparse(n_.func)
                if nm_.split(".")[-1].endswith("FileHandler"):
                    n13 += 1
                    ctx.ob("R13", f"{fi13.qual}::{nm_.split('.')[-1]}::one-file", "Rotating" not in nm_,
                           f"{fi13.qual} installs `{nm_}`: the log rolls over between two records - a snapshot (or the STATV segments of one transfer) written across the roll-over is split over two files and read back from neither",
                           loc(fi13, n_), sample={"rule": "R13", "site": fi13.qual, "handler": nm_})
    ctx.floor("R13", "file handlers installed by the tools", n13, 1)
    ctx.rule("R14", "the traffic log shows what arrived: the socket's \"Received ...\" debug line is the writer side of the raw traffic log, and the reader takes a segment from `STATV ... </DATAS>` on it - dispatch of a 400-byte datagram, interpreted with the logger observed, logs the datagram whole (a line bounded to its first 256 bytes loses every segment longer than that: the transfer reassembles from the log to other bytes than the client holds)")
    from ..enginemodel import traffic_log_carries_whole_datagrams as _tlw19
    _tlw19(ctx, repo, "R14")
