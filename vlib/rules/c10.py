"""C10 - reset or exit at any point leaks no endpoint/task and has no late effects.

The crash points of a coroutine are its `await` expressions; "released whatever point is
hit" becomes acquire/release pairing over the CFG including exceptional edges.
"""
from __future__ import annotations

import ast

from ..callgraph import callgraph
from ..cfg import cfg_of
from ..core import AnalysisError
from ..facts import loc
from ..src import Repo, call_name, has_await, receiver, walk_no_nested

TIMED_WAITS = {"sleep", "config_sleep", "wait", "wait_for", "wait_for_response", "get"}
EVENT_DELIVERY = {"_handle_event", "_event_handler", "handle_event"}


def acquire_sites(repo):
    """(FuncInfo, cfg node, attr) for `self.<attr>, x = await loop.create_datagram_endpoint(...)`"""
    out = []
    for fi in repo.all_functions():
        for n in walk_no_nested(fi.node):
            if isinstance(n, ast.Assign) and any(
                isinstance(c, ast.Call) and call_name(c) == "create_datagram_endpoint" for c in ast.walk(n.value)
            ):
                attr = None
                for t in n.targets:
                    for tt in ast.walk(t):
                        if isinstance(tt, ast.Attribute) and isinstance(tt.value, ast.Name) and tt.value.id == "self":
                            attr = attr or tt.attr
                out.append((fi, n, attr))
    return out


def closes_transport(repo, cg, fi, call, attr, depth=2, recv=None):
    """Does this call close the endpoint held in self.<attr>?  Directly
    (`self.<attr>.close()`, also through a local alias: `recv` is the receiver with single-definition locals
    expanded) or through a resolved callee that closes `.transport`."""
    nm = call_name(call)
    r = recv or receiver(call) or ""
    if nm in ("close", "abort") and (r == f"self.{attr}" or r.endswith(".transport") or r.endswith("._transport")):
        return True
    if depth <= 0:
        return False
    for f2 in cg.resolve(fi, call):
        if f2.cls is None or f2.name in ("__init__",):
            continue
        for c2 in walk_no_nested(f2.node):
            if isinstance(c2, ast.Call):
                n2, r2 = call_name(c2), receiver(c2) or ""
                if n2 in ("close", "abort") and (r2.endswith("transport") or r2.endswith("_transport")):
                    return True
                if n2 not in ("close",) and r2 == "self" and closes_transport(repo, cg, f2, c2, "transport", depth - 1):
                    return True
    return False


def _locally_cancelled(fi, call):
    """the task started by `call` is bound to a local name T and `T.cancel()` sits in the finally of a try that either
    contains the start or follows it immediately"""
    parents = {}
    for n in ast.walk(fi.node):
        for c in ast.iter_child_nodes(n):
            parents[c] = n
    st = call
    while st in parents and not isinstance(st, ast.stmt):
        st = parents[st]
    if not (isinstance(st, ast.Assign) and len(st.targets) == 1 and isinstance(st.targets[0], ast.Name) and st.value is call):
        return False, "does not bind it to a local name"
    name = st.targets[0].id

    def cancels(body):
        for x in body:
            for n in ast.walk(x):
                if isinstance(n, ast.Call) and isinstance(n.func, ast.Attribute) and n.func.attr == "cancel" and isinstance(n.func.value, ast.Name) and n.func.value.id == name:
                    return True
        return False
    # (a) the start is inside a try whose finally cancels
    p = st
    while p in parents:
        q = parents[p]
        if isinstance(q, ast.Try) and p in q.body and cancels(q.finalbody):
            return True, ""
        p = q
    # (b) the next statement is such a try
    blk = parents.get(st)
    for fld in ("body", "orelse", "finalbody"):
        seq = getattr(blk, fld, None)
        if isinstance(seq, list) and st in seq:
            i = seq.index(st)
            if i + 1 < len(seq) and isinstance(seq[i + 1], ast.Try) and cancels(seq[i + 1].finalbody):
                return True, ""
    return False, f"no `finally` cancels `{name}` on the exceptional exit"


def reset_during_connect_model(ctx, repo, rule):
    """A reset can land while the connection attempt is suspended (the reconnect button exists from CONNECTION_STARTED on;
    the ping recovery resets on its own).  GeckoAsyncSpa._connect is interpreted on the connection model with every
    request answered; at its k-th suspension point (endpoint creation, the pauses, the requests) the spa's disconnect()
    runs - the reset - and _connect then goes on as the event loop would let it.  For every k: each endpoint that was
    opened is closed, and no task started after the reset is left running (each such coroutine is stepped once: it must
    end - by returning or by failing on the objects the reset cleared - before its first suspension)."""
    from ..absint import BoundMethod, Obj, PyRaise, Undecided
    from ..facts import ConnectionModel
    from ..modlookup import _model_module
    S = "GeckoAsyncSpa"
    con, dis = repo.method(S, "_connect"), repo.method(S, "disconnect")

    class _Alive(Exception):
        pass

    def answer(req):
        nm = req.cls.short if isinstance(req, Obj) and req.cls is not None else ""
        if "Version" in nm:
            return Obj(None, {"en_build": 70, "en_major": 14, "en_minor": 1, "co_build": 69, "co_major": 11, "co_minor": 2}, name="version-reply")
        if "Channel" in nm:
            return Obj(None, {"channel": 10, "signal_strength": 33}, name="channel-reply")
        if "ConfigFile" in nm:
            return Obj(None, {"plateform_key": "inYT", "config_version": 61, "log_version": 59}, name="files-reply")
        return None
    n_points = None
    k = 0
    results = []
    while True:
        st = {"n": 0, "reset_at": None, "kind": None}
        box = {}

        def on_suspend(kind, st=st, box=box, k=k):
            i = st["n"]
            st["n"] += 1
            if i == k and st["reset_at"] is None:
                cm_ = box["cm"]
                st["reset_at"], st["kind"] = len(cm_.tasks), kind
                try:
                    cm_.it.call(dis, cm_.spa, [])
                except PyRaise as e:
                    st["reset_raises"] = e.what
        cm = ConnectionModel(repo, connect=False, answer=answer, on_suspend=on_suspend)
        box["cm"] = cm
        # the block transfer is a suspension point like the requests; the tables are stand-ins
        from ..absint import Native

        class _Any(dict):
            def __missing__(self, key):
                return Obj(None, {"value": 1, "tag": key}, name=f"acc<{key}>")

            def __contains__(self, key):
                return True

            def __hash__(self):
                return id(self)
        st_ = cm.it.getattr(cm.spa, "struct")
        if isinstance(st_, Obj):
            st_.attrs["get"] = Native(lambda a, kw, on_suspend=on_suspend: (on_suspend("struct.get"), True)[1], "get")
            st_.attrs["build_accessors"] = Native(lambda a, kw: None, "build_accessors")
            st_.attrs["accessors"] = _Any()
        taken = []
        module = _model_module(taken)
        inner = cm.it.call_hook
        cm.it.call_hook = lambda it_, node, callee, a, kw, inner=inner, module=module: (module(a[0] if a else None) if getattr(callee, "name", "").endswith("import_module") else inner(it_, node, callee, a, kw))
        try:
            cm.it.steps = 0
            cm.it.call(con, cm.spa, [])
            outcome = None
        except PyRaise as e:
            outcome = e.what           # the attempt failing on what the reset cleared is the driver's matter (C09), not a leak
        except Undecided as e:
            raise AnalysisError(f"{con.qual} with a reset at its suspension point {k}: {e}")
        if st["reset_at"] is None:
            break                       # fewer than k+1 suspension points: every one has been tried
        late = cm.tasks[st["reset_at"]:]
        alive = []
        cm.probing = True
        for coro, name, key in late:
            if not (isinstance(coro, Obj) and coro.attrs.get("kind") in ("consume", "coroutine")):
                continue
            if coro.attrs["kind"] == "consume":
                h = coro.attrs["handler"]
                fi_ = repo.method(h.cls.short, "consume") if isinstance(h, Obj) and h.cls is not None else None
                target, args = h, coro.attrs.get("args", [])
            else:
                fi_ = repo.method(S, coro.attrs["method"], required=False)
                target, args = cm.spa, coro.attrs.get("args", [])
            if fi_ is None:
                continue
            prev = cm.it.call_hook

            def probe(it_, node, callee, a, kw, prev=prev):
                nm = getattr(callee, "name", "")
                f = getattr(node, "func", None)
                if nm == "asyncio.sleep" or (isinstance(f, ast.Attribute) and f.attr in ("sleep", "config_sleep", "wait_for_response")) or (isinstance(f, ast.Name) and f.id == "config_sleep"):
                    raise _Alive()
                return prev(it_, node, callee, a, kw)
            cm.it.call_hook = probe
            try:
                cm.it.steps = 0
                cm.it.call(fi_, target, list(args))
            except _Alive:
                alive.append(f"{key}:{name}")
            except (PyRaise, Undecided):
                pass                    # ends at once on what the reset cleared
            finally:
                cm.it.call_hook = prev
        cm.probing = False
        opened = getattr(cm, "endpoints", 0)
        closed = cm.transport.attrs["closed"]
        results.append((k, st["kind"], opened, closed, alive, outcome))
        k += 1
        if k > 40:
            raise AnalysisError(f"{con.qual}: more than 40 suspension points on the connection model")
    n_points = len(results)
    nth = {}
    for k_, kind, opened, closed, alive, outcome in results:
        ok = closed >= opened and not alive
        nth[kind] = nth.get(kind, 0) + 1
        # keyed by the kind of suspension point and its number among those of its kind: an extra pause elsewhere does not rename it
        ctx.ob(rule, f"{con.qual}::reset-during::{kind}#{nth[kind]}::nothing-left-behind", ok,
               f"{con.qual}: a reset (disconnect) while the attempt is suspended at its suspension point {k_} ({kind}): {opened} endpoint(s) opened, {closed} closed; "
               f"tasks started after the reset and still running: {alive or 'none'} (attempt ends with {outcome!r}) - a connection abandoned by a reset must leave no open endpoint and no running task",
               con.loc, sample={"rule": rule, "suspension_point": k_, "kind": kind, "alive": alive, "endpoints_open": opened - closed} if k_ < 3 else None)
    ctx.count(f"{rule}:suspension points of _connect at which a reset was injected", n_points)
    ctx.floor(rule, "suspension points of _connect at which a reset was injected", n_points, 6)


def no_jump_out_of_finally(ctx, repo, rule):
    """`return`, `break` or `continue` inside a `finally:` block discards the exception in flight - asyncio.CancelledError
    included: a task cancelled inside the `try` carries on as if nothing had happened (it survives the reset or the exit
    that cancelled it and goes on to raise events and send requests).  No such jump exists anywhere in the package."""
    n = 0
    for fi in repo.all_functions():
        if "/driver/packs/" in fi.mod.rel:
            continue
        for t in walk_no_nested(fi.node):
            if not isinstance(t, ast.Try) or not t.finalbody:
                continue
            n += 1

            def jumps(stmts, in_loop=False):
                for s_ in stmts:
                    if isinstance(s_, (ast.FunctionDef, ast.AsyncFunctionDef, ast.ClassDef)):
                        continue
                    if isinstance(s_, ast.Return) or (not in_loop and isinstance(s_, (ast.Break, ast.Continue))):
                        yield s_
                    loop_here = in_loop or isinstance(s_, (ast.For, ast.AsyncFor, ast.While))
                    for fld in ("body", "orelse", "finalbody", "handlers"):
                        sub = getattr(s_, fld, None)
                        if isinstance(sub, list):
                            subs = [x for h in sub for x in (h.body if isinstance(h, ast.ExceptHandler) else [h])]
                            yield from jumps(subs, loop_here if fld == "body" else in_loop)
            for j in jumps(t.finalbody):
                ctx.ob(rule, f"{fi.qual}::finally-L{t.finalbody[0].lineno - fi.node.lineno}::{type(j).__name__.lower()}", False,
                       f"{fi.qual}: `{ast.unparse(j)[:40]}` inside a `finally:` block discards the exception in flight - a CancelledError delivered inside the `try` is swallowed, "
                       f"the cancelled task carries on (late events, requests after the reset, an exit that never completes)", loc(fi, j))
    ctx.ob(rule, "finally-blocks::examined", n > 0, "no try/finally found in the package")
    ctx.count(f"{rule}:finally blocks examined", n)


def spa_teardown_model(ctx, repo, rule):
    """GeckoAsyncSpa.disconnect by interpretation (facts.ConnectionModel): the spa is built by its constructor, _connect
    opens the endpoint on a model event loop and starts its tasks, then disconnect() runs.  Afterwards the model
    transport has been closed exactly once, the spa keeps no reference to the transport or to the protocol object, the
    task keys _connect used have been cancelled, and is_connected reads False.  -> True when the endpoint was closed"""
    from ..absint import Obj, PyRaise, Undecided
    from ..facts import ConnectionModel
    cm = ConnectionModel(repo)
    dis = repo.method("GeckoAsyncSpa", "disconnect")
    held_before = [k for k, v in cm.spa.attrs.items() if v is cm.transport or (cm.protocol is not None and v is cm.protocol)]
    ctx.ob(rule, "GeckoAsyncSpa._connect::keeps-the-endpoint", bool(held_before),
           "after _connect the spa holds neither the transport nor the protocol object the event loop handed out: nothing can close the endpoint later", repo.method("GeckoAsyncSpa", "_connect").loc)
    keys_started = sorted({k for _c, _n, k in cm.tasks if isinstance(k, str)})
    try:
        cm.it.steps = 0
        cm.it.call(dis, cm.spa, [])
        raised = None
    except PyRaise as e:
        raised = e.what
    except Undecided as e:
        raise AnalysisError(f"{dis.qual} on the model connection: {e}")
    closed = cm.transport.attrs["closed"]
    ctx.ob(rule, "GeckoAsyncSpa.disconnect::closes-the-endpoint", raised is None and closed == 1,
           f"{dis.qual} after a connect {'raises ' + raised if raised else f'closes the transport {closed} time(s)'}: the UDP socket of the abandoned connection stays open (one per reset) or is closed twice",
           dis.loc, sample={"rule": rule, "closed": closed, "task_keys_started": keys_started, "cancelled": [str(c) for c in cm.cancelled]})
    still = [k for k, v in cm.spa.attrs.items() if v is cm.transport or (cm.protocol is not None and v is cm.protocol)]
    ctx.ob(rule, "GeckoAsyncSpa.disconnect::drops-the-endpoint", not still,
           f"{dis.qual} leaves {still} pointing at the closed transport / protocol: a later send or a second disconnect uses a dead endpoint", dis.loc)
    ctx.ob(rule, "GeckoAsyncSpa.disconnect::cancels-what-connect-started", all(k in cm.cancelled for k in keys_started) and bool(keys_started),
           f"_connect started tasks under key(s) {keys_started}; disconnect cancelled {cm.cancelled}", dis.loc)
    try:
        ic = cm.it.getattr(cm.spa, "is_connected")
    except (PyRaise, Undecided) as e:
        ic = f"<{e}>"
    ctx.ob(rule, "GeckoAsyncSpa.disconnect::reads-not-connected", ic is False, f"after disconnect is_connected reads {ic!r}: late commands would still be sent", dis.loc)
    return raised is None and closed >= 1


def teardown_after_endpoint_loss(ctx, repo, rule):
    """the datagram endpoint can die on its own (a fatal socket error, the interface going away): the event loop then calls
    the protocol's connection_lost() before anybody asks for a reset.  On the connection model: _connect, then
    connection_lost(None) on the protocol object the factory built, then disconnect() - the reset - which must complete
    (no exception), cancel the connection's task keys and leave the spa without endpoint references.  A disconnect that
    fails here leaves the manager's reset half done, for good: every later reset fails the same way."""
    from ..absint import Obj, PyRaise, Undecided
    from ..facts import ConnectionModel
    cm = ConnectionModel(repo)
    dis = repo.method("GeckoAsyncSpa", "disconnect")
    keys_started = sorted({k for _c, _n, k in cm.tasks if isinstance(k, str)})
    proto = cm.protocol
    cl = repo.method(proto.cls.short, "connection_lost", required=False) if isinstance(proto, Obj) and proto.cls is not None else None
    if cl is None:
        ctx.note("the protocol object has no connection_lost(): endpoint loss before a reset is not modelled")
        return
    try:
        cm.it.steps = 0
        cm.it.call(cl, proto, [None])
        cm.it.steps = 0
        cm.it.call(dis, cm.spa, [])
        raised = None
    except PyRaise as e:
        raised = e.what
    except Undecided as e:
        raise AnalysisError(f"{dis.qual} after connection_lost on the model connection: {e}")
    still = [k for k, v in cm.spa.attrs.items() if v is cm.transport or v is proto]
    ctx.ob(rule, "GeckoAsyncSpa.disconnect::after-the-endpoint-was-lost", raised is None and not still and all(k in cm.cancelled for k in keys_started),
           f"{dis.qual} after the event loop reported the endpoint lost: {'raises ' + raised if raised else 'completes'}, endpoint references left {still}, task keys cancelled {cm.cancelled} of {keys_started} - "
           f"a reset that fails here leaves the manager with its facade and spa, its tasks cancelled, and fails again on every later attempt", dis.loc,
           sample={"rule": rule, "raised": raised, "cancelled": [str(c) for c in cm.cancelled]})


def check(ctx):
    repo = Repo()
    cg = callgraph(repo)
    ctx.rule("R1", "endpoint pairing: every create_datagram_endpoint result stored in self.T is closed before the reference is dropped, in a function reachable from the owner's teardown")
    ctx.rule("R2", "crash-point coverage: in a function that both opens and closes an endpoint, every suspension point in between reaches the close on its exceptional edge too (finally/context manager)")
    ctx.rule("R3", "task-key pairing: every add_task key has a matching cancel_key_tasks(<same literal>) reachable from reset / context exit / the function that started it; gather cancels and awaits every task")
    ctx.rule("R4", "cancellation is never swallowed (handlers catching CancelledError re-raise on all paths) nor deferred (no timed wait inside a finally of a task coroutine)")
    ctx.rule("R5", "observers detached: spa.disconnect unwatches itself and drops accessors; facade.disconnect unwatches every automation device; reset calls both")
    ctx.rule("R7", "reset survives cancelling its own task: no suspension point after cancel_key_tasks(<ping-loop key>) in spa.disconnect, nor in async_reset after the spa disconnect")
    ctx.rule("R6", "bounded growth: _tidy rebinds the task list to the not-done subset; reset drops facade/spa/descriptors")

    # ---- R1 / R2 -----------------------------------------------------------
    acq = acquire_sites(repo)
    ctx.floor("R1", "endpoint acquire sites", len(acq), 2)
    model_closed = {"GeckoAsyncSpa": spa_teardown_model(ctx, repo, "R1")}
    teardown_after_endpoint_loss(ctx, repo, "R1")
    for fi, asg, attr in acq:
        key = f"{fi.qual}::{attr}"
        if attr is None:
            ctx.ob("R1", key, False, f"{fi.qual}: endpoint not stored in an attribute of its owner (cannot be closed later)", loc(fi, asg))
            continue
        cls = fi.cls
        # drop sites: self.attr = None anywhere in the class; closers: calls that close it
        drops, closers = [], []
        for m in cls.methods.values():
            g = cfg_of(m)
            for n in g.stmt_nodes():
                if isinstance(n.ast, ast.Assign) and isinstance(n.ast.value, ast.Constant) and n.ast.value.value is None:
                    for t in n.ast.targets:
                        if isinstance(t, ast.Attribute) and t.attr == attr and isinstance(t.value, ast.Name) and t.value.id == "self":
                            if m.name != "__init__":
                                drops.append((m, g, n))
                for c in n.calls():
                    recv = None
                    if isinstance(c.func, ast.Attribute):
                        try:
                            recv = ast.unparse(g.expand(c.func.value, at=n))
                        except RecursionError:
                            recv = None
                    if closes_transport(repo, cg, m, c, attr, recv=recv):
                        closers.append((m, g, n))
        ctx.ob("R1", f"{key}::has-close", bool(closers) or model_closed.get(cls.short, False),
               f"{cls.name} opens a UDP endpoint into self.{attr} ({fi.qual}) but no method of the class closes it (transport.close() is never called: the socket leaks on every reset)",
               loc(fi, asg), sample={"rule": "R1", "acquire": f"{fi.qual} {loc(fi, asg)}", "attr": attr,
                                     "closers": [f"{m.qual} L{n.lineno}" for m, g, n in closers],
                                     "drops": [f"{m.qual} L{n.lineno}" for m, g, n in drops]})
        for m, g, n in drops:
            ok = any(m2 is m and g.dom(cn, n) for m2, g2, cn in closers)
            ctx.ob("R1", f"{m.qual}::{attr}::close-before-drop", ok,
                   f"{m.qual}: self.{attr} is dropped (= None, L{n.lineno}) without having been closed on every path",
                   loc(m, n.ast))
        # R2: same-function acquire + close: exceptional edges of suspension points
        g = cfg_of(fi)
        an = g.nodes_for(asg)
        local_closers = [cn for m, g2, cn in closers if m is fi]
        # a close that lives in the `finally` of a @contextmanager generator covers every statement inside the `with`
        # that enters it: leaving the block - by exception or cancellation too - resumes the generator into its finally
        guarded_lines = set()
        for w in ast.walk(fi.node):
            if not isinstance(w, (ast.With, ast.AsyncWith)):
                continue
            for item in w.items:
                c_ = item.context_expr
                if not isinstance(c_, ast.Call):
                    continue
                for f2 in cg.resolve(fi, c_):
                    if not any(d.split(".")[-1] in ("contextmanager", "asynccontextmanager") for d in f2.decorators()):
                        continue
                    for t_ in ast.walk(f2.node):
                        if isinstance(t_, ast.Try) and any(isinstance(y, (ast.Yield, ast.YieldFrom)) for b_ in t_.body for y in ast.walk(b_)) and \
                                any(isinstance(c2, ast.Call) and closes_transport(repo, cg, f2, c2, attr) for b_ in t_.finalbody for c2 in ast.walk(b_)):
                            for b_ in w.body:
                                for x_ in ast.walk(b_):
                                    if hasattr(x_, "lineno"):
                                        guarded_lines.add(x_.lineno)
        if an and local_closers:
            A = an[0]
            after = g.reach_from(A)
            for s in sorted((x for x in after if x.suspends and x not in local_closers and x.lineno not in guarded_lines), key=lambda x: x.lineno):
                # exceptional successors of s
                bad = False
                for t, label in g.succ[s]:
                    if label != "exc":
                        continue
                    if t in local_closers:
                        continue
                    if t is g.raise_ or _escapes(g, t, local_closers):
                        bad = True
                ctx.ob("R2", f"{fi.qual}::{attr}::L-await-{_ord(g, s)}", not bad,
                       f"{fi.qual}: cancellation/exception at the await on line {s.lineno} (`{s.text()}`) leaves the function without closing self.{attr}",
                       loc(fi, s.ast), sample={"rule": "R2", "function": fi.qual, "await": s.text(), "line": s.lineno, "covered": not bad})

    # ---- R3 task keys -------------------------------------------------------
    adds = []
    for fi in repo.all_functions():
        for n in walk_no_nested(fi.node):
            if isinstance(n, ast.Call) and call_name(n) == "add_task":
                k = None
                if len(n.args) >= 3:
                    k = repo.try_fold(n.args[2], fi.mod, fi.cls)
                adds.append((fi, n, k))
    ctx.floor("R3", "add_task sites", len(adds), 6)
    # ... and what _connect really starts (by interpretation: a loop over a table of coroutines is one site, many tasks)
    from ..facts import ConnectionModel as _CM
    _cm = _CM(repo)
    _con = repo.method("GeckoAsyncSpa", "_connect")
    for _c, _nm, _k in _cm.tasks:
        if isinstance(_k, str) and not any(kk == _k and fi_ is _con for fi_, _n, kk in adds):
            adds.append((_con, _con.node, _k))
    ctx.floor("R3", "tasks started by _connect (interpreted)", len(_cm.tasks), 5)
    cancels = {}
    for fi in repo.all_functions():
        for n in walk_no_nested(fi.node):
            if isinstance(n, ast.Call) and call_name(n) == "cancel_key_tasks" and n.args:
                k = repo.try_fold(n.args[0], fi.mod, fi.cls)
                cancels.setdefault(k, []).append((fi, n))
    reset = repo.method("GeckoAsyncSpaMan", "async_reset")
    aexit = repo.method("GeckoAsyncSpaMan", "__aexit__")
    from_reset = cg.reachable([reset])
    from_exit = cg.reachable([aexit])
    gather = repo.method("AsyncTasks", "gather")
    ctx.ob("R3", "aexit-reaches-gather", id(gather.node) in from_exit,
           "GeckoAsyncSpaMan.__aexit__ no longer reaches AsyncTasks.gather (tasks survive the context)", aexit.loc)
    keys = sorted({k for _, _, k in adds if isinstance(k, str)})
    ctx.count("task_keys", len(keys))
    for fi, n, k in adds:
        if not isinstance(k, str):
            ctx.ob("R3", f"{fi.qual}::non-literal-key", False, f"{fi.qual}: add_task key is not a literal ({ast.unparse(n)[:60]})", loc(fi, n))
    for k in keys:
        starters = [fi for fi, n, kk in adds if kk == k]
        cs = cancels.get(k, [])
        if k == "ASYNC":
            # the task manager's own housekeeping task: covered by gather only
            continue
        ctx.ob("R3", f"key::{k}::has-cancel", bool(cs),
               f"tasks are started under key {k!r} (in {sorted({s.qual for s in starters})}) but cancel_key_tasks({k!r}) is never called", starters[0].loc)
        if not cs:
            continue
        # where must the cancel be reachable from?
        ok = False
        why = []
        for cfi, cn in cs:
            if id(cfi.node) in from_reset or id(cfi.node) in from_exit:
                ok = True
                why.append(cfi.qual)
            if any(cfi is s for s in starters):
                ok = True
                why.append(cfi.qual + " (same function)")
            elif any(id(cfi.node) in cg.reachable([s], max_depth=2) for s in starters):
                ok = True
                why.append(cfi.qual + " (called by the starting function)")
        ctx.ob("R3", f"key::{k}::cancel-reachable", ok,
               f"cancel_key_tasks({k!r}) exists only in {[c.qual for c, _ in cs]}, not reachable from async_reset/__aexit__ nor in the starting function",
               cs[0][0].loc, sample={"rule": "R3", "key": k, "started_in": sorted({s.qual for s in starters}), "cancelled_in": why})
        # per-connection keys must be cancelled by reset itself
        if any(s.cls is not None and s.cls.short in ("GeckoAsyncSpa", "GeckoAsyncFacade") for s in starters):
            ok2 = any(id(cfi.node) in from_reset for cfi, _ in cs)
            ctx.ob("R3", f"key::{k}::cancelled-by-reset", ok2,
                   f"connection-scoped tasks {k!r} are not cancelled on any path reachable from GeckoAsyncSpaMan.async_reset", cs[0][0].loc)
    # cancel sites whose key nobody starts are harmless; cancel with the wrong literal shows as missing above
    # registry behaviour by interpretation (vlib/taskmodel.py): domain isolation, nothing forgotten, gather
    from ..taskmodel import check_registry
    check_registry(ctx, repo, "R3", only=("isolation", "forgotten", "gather", "same-name"))
    reset_during_connect_model(ctx, repo, "R3")
    no_jump_out_of_finally(ctx, repo, "R4")

    # ---- R4 cancellation ----------------------------------------------------
    n_handlers = cancellation_passes_through(ctx, repo, "R4", cg)
    n_finally = 0
    for fi in repo.all_functions():
        if not fi.is_async:
            continue
        for t in walk_no_nested(fi.node):
            if not isinstance(t, ast.Try):
                continue
            if t.finalbody:
                n_finally += 1
                waits = []
                for s in t.finalbody:
                    for sub in walk_no_nested(s):
                        if isinstance(sub, ast.Await):
                            c = sub.value
                            if isinstance(c, ast.Call):
                                nm = call_name(c)
                                if nm in EVENT_DELIVERY:
                                    continue
                                if nm in TIMED_WAITS:
                                    waits.append(sub)
                                else:
                                    # resolved callee containing a timed wait (depth 1)
                                    for f2 in cg.resolve(fi, c):
                                        for s2 in walk_no_nested(f2.node):
                                            if isinstance(s2, ast.Await) and isinstance(s2.value, ast.Call) and call_name(s2.value) in TIMED_WAITS:
                                                waits.append(sub)
                ctx.ob("R4", f"{fi.qual}::finally-L{_try_ord(fi, t)}::no-timed-wait", not waits,
                       f"{fi.qual}: `finally` block awaits a timed wait ({[ast.unparse(w)[:50] for w in waits]}): after task.cancel() this await runs to its full timeout before the task ends",
                       loc(fi, t.finalbody[0]), sample={"rule": "R4b", "function": fi.qual, "finally_line": t.finalbody[0].lineno, "timed_waits": [ast.unparse(w)[:60] for w in waits]})
    ctx.floor("R4", "handlers that can catch CancelledError in coroutines", n_handlers, 4)
    ctx.floor("R4", "finally blocks in coroutines", n_finally, 1)

    # ---- R5 observers -------------------------------------------------------
    # unwatch_all is the detach step of both teardowns: on the real Observable (interpreted: C03.R5's scenarios) it leaves
    # nobody registered - a loop that removes while it iterates leaves every second observer behind
    from .c03 import observers as _observers10
    _observers10(ctx.borrowed("R5", "C03", key_contains="unwatch-all"), repo)
    sd = repo.method("GeckoAsyncSpa", "disconnect")
    gsd = cfg_of(sd)
    def always(g, nodes):
        return any(g.pdom(n, g.entry) for n in nodes)
    uw = [n for n, c in gsd.nodes_calling("unwatch_all") if receiver(c) == "self"]
    ctx.ob("R5", "GeckoAsyncSpa.disconnect::unwatch_all", always(gsd, uw), "spa.disconnect does not call self.unwatch_all() on every normal path", sd.loc)
    rs = [n for n, c in gsd.nodes_calling("reset") if (receiver(c) or "").endswith("struct")]
    ctx.ob("R5", "GeckoAsyncSpa.disconnect::struct.reset", always(gsd, rs), "spa.disconnect does not reset the structure (accessors and their observers stay alive)", sd.loc)
    ck = [n for n, c in gsd.nodes_calling("cancel_key_tasks")]
    ctx.ob("R5", "GeckoAsyncSpa.disconnect::cancel-tasks", always(gsd, ck), "spa.disconnect does not cancel its tasks on every normal path", sd.loc)
    from ..facts import connected_flag_stores as _cfs
    _clears, _fa = _cfs(repo, "GeckoAsyncSpa", sd, False)   # stores after which is_connected reads False (the flag by role)
    flag = [n for n in gsd.stmt_nodes() if n.ast in _clears]
    ctx.ob("R5", "GeckoAsyncSpa.disconnect::not-connected", always(gsd, flag), "spa.disconnect does not clear the connected flag (late commands would still be sent)", sd.loc)
    sr = repo.method("GeckoAsyncStructure", "reset")
    ok = any(isinstance(n, ast.Assign) and ast.unparse(n.targets[0]) == "self.accessors" and isinstance(n.value, ast.Dict) and not n.value.keys for n in ast.walk(sr.node))
    ctx.ob("R5", "GeckoAsyncStructure.reset::drops-accessors", ok, "structure reset keeps the accessors (and their observers)", sr.loc)
    fd = repo.method("GeckoAsyncFacade", "disconnect")
    gfd = cfg_of(fd)
    uw = gfd.nodes_calling("unwatch_all")
    ok = False
    for n, c in uw:
        l = gfd.loop_of(n)
        if l is not None and l.kind == "for" and ast.unparse(l.ast.iter).endswith("all_automation_devices") and receiver(c) == ast.unparse(l.ast.target):
            ok = gfd.pdom(l, gfd.entry)
    ctx.ob("R5", "GeckoAsyncFacade.disconnect::unwatch-all-devices", ok, "facade.disconnect does not unwatch every element of all_automation_devices", fd.loc)
    ckf = [n for n, c in gfd.nodes_calling("cancel_key_tasks")]
    ctx.ob("R5", "GeckoAsyncFacade.disconnect::cancel-tasks", always(gfd, ckf), "facade.disconnect does not cancel its tasks", fd.loc)
    gr = cfg_of(reset)
    # whatever exists is disconnected, whatever state the manager is in (manager model of C08: async_reset interpreted from
    # six states x facade / spa present, spa connected or still in its handshake)
    from .c08 import reset_by_interpretation
    reset_by_interpretation(ctx.borrowed("R5", "C08", key_contains="::disconnects-what-exists"), repo, "I6")
    reset_survives_self_cancel(ctx, repo, "R7")

    # ---- R9 who may start a task -----------------------------------------------------------------------------------
    # cancel_key_tasks / gather only reach tasks the registry knows.  A task started behind its back (a timer raced
    # against a future, a fire-and-forget ensure_future) outlives the reset unless the function that started it cancels
    # it on EVERY exit - the exceptional one (CancelledError while it waits) included.
    ctx.rule("R9", "who may start a task: asyncio.create_task / ensure_future / loop.create_task / run_coroutine_threadsafe appear only in AsyncTasks.add_task (the registry that reset and context exit cancel); elsewhere the started task must be bound to a local that a `finally` of the same function cancels, with nothing but the binding between the start and the protected region")
    starters = ("create_task", "ensure_future", "run_coroutine_threadsafe")
    n_start = 0
    for fi in repo.all_functions():
        for node in walk_no_nested(fi.node):
            if not (isinstance(node, ast.Call) and call_name(node) in starters):
                continue
            n_start += 1
            if fi.qual == "AsyncTasks.add_task":
                continue
            ok, why = _locally_cancelled(fi, node)
            ctx.ob("R9", f"{fi.qual}::{call_name(node)}-{sum(1 for x in walk_no_nested(fi.node) if isinstance(x, ast.Call) and call_name(x) in starters and x.lineno <= node.lineno)}", ok,
                   f"{fi.qual}: `{ast.unparse(node)[:80]}` starts a task outside the AsyncTasks registry and {why}: when the waiting task is cancelled (reset, disconnect, context exit) "
                   f"the started task stays alive - no cancel_key_tasks / gather reaches it", loc(fi, node))
    ctx.floor("R9", "task-start sites", n_start, 1)

    # ---- R8 nothing of a connection is shared with the next one through a default argument ------------------------
    # a mutable default (`queue=AsyncPeekableQueue()`, `handlers=[]`) is evaluated once, at definition: every object
    # built without that argument shares it, so datagrams / handlers / tasks of an abandoned connection reach the next
    ctx.rule("R8", "per-connection state: no constructor keeps a mutable default argument (a list/dict/set display or a constructed object evaluated once at definition) in an instance attribute")
    no_shared_defaults(ctx, repo, "R8")
    shared_class_state(ctx, repo, "R8")
    shared_module_state(ctx, repo, "R8")

    ctx.rule("R10", "the teardown runs to its end in EVERY state: async_reset on the manager model (status sensor, button and radio sensors created the way a connection creates them), started in each member of GeckoSpaState with a spa and a facade present, completes without raising, disconnects both and lands in IDLE - the teardown path renders the state for the status sensor, so a state whose text cannot be produced (an index past a table's end for ERROR_RF_FAULT) aborts spa.disconnect half-way: endpoint open, six tasks alive, and every later reset and the context exit raise again")
    reset_completes_in_every_state(ctx, repo, "R10")

    # ---- R6 bounded growth --------------------------------------------------
    check_registry(ctx, repo, "R6", only=("tidy",))
    tidy_started = any(fi.qual == "AsyncTasks.__aenter__" and isinstance(n.args[0], ast.Call) and call_name(n.args[0]) == "_tidy" for fi, n, k in adds if n.args)
    ctx.ob("R6", "AsyncTasks.__aenter__::starts-tidy", tidy_started, "the tidy task is not started on context entry")
    for attr in ("_facade", "_spa", "_spa_descriptors"):
        ns = [n for n in gr.stmt_nodes() if isinstance(n.ast, ast.Assign) and any(ast.unparse(t_) == f"self.{attr}" for t_ in n.ast.targets)
              and isinstance(n.ast.value, ast.Constant) and n.ast.value.value is None]
        ctx.ob("R6", f"GeckoAsyncSpaMan.async_reset::drops-{attr}", bool(ns), f"async_reset keeps self.{attr}", reset.loc)
    ctx.assume("`except Exception` does not catch asyncio.CancelledError (Python >= 3.8)")
    ctx.assume("task.cancel() delivers one CancelledError at the current await; a later await in a finally block runs to completion")


_MUTATORS = ("append", "add", "update", "extend", "pop", "clear", "setdefault", "remove", "insert", "popitem", "discard")


def reset_completes_in_every_state(ctx, repo, rule):
    from ..absint import PyRaise
    from ..managermodel import MAN as _MAN, STATE as _STATE, Manager, members
    fi = repo.method(_MAN, "async_reset")
    n = 0
    for name, _v in members(repo, _STATE):
        m = Manager(repo).warm_up()
        m.put(name)
        try:
            m.reset()
            after = m.state()
            ok = after == "IDLE" and "spa.disconnect" in m.log and "facade.disconnect" in m.log
            why = f"ends in {after} after {[x for x in m.log if isinstance(x, str)]}"
        except PyRaise as e:
            ok, why = False, f"raises {e.what} after {[x for x in m.log if isinstance(x, str)]}"
        n += 1
        ctx.ob(rule, f"{fi.qual}::from-{name}::completes", ok,
               f"{fi.qual} started in state {name} with a spa and a facade present {why}: expected both disconnected and IDLE - a teardown that raises half-way leaves the endpoint open and the connection's tasks running, "
               f"and every later reset / the context exit fails the same way", fi.loc, sample={"rule": rule, "state": name} if name.startswith("ERROR") else None)
    ctx.count(f"{rule}:states reset was started in", n)
    ctx.floor(rule, "states reset was started in", n, 8)


def cancellation_passes_through(ctx, repo, rule, cg=None):
    """R4a: whatever intercepts a cancellation delivered at an await lets it go on - `except` handlers of coroutines
    (bare, BaseException, CancelledError) re-raise on every path, @contextmanager generators wrapped around awaits
    re-raise at their `yield`, and context-manager classes of the package used around awaits answer a
    CancelledError with a false value from __exit__ / __aexit__.  -> number of interception sites examined"""
    from ..callgraph import CallGraph
    cg = cg or CallGraph(repo)
    n_handlers = 0

    def _suspends(stmts, via_yield):
        if via_yield:
            return any(isinstance(x, (ast.Yield, ast.YieldFrom)) for s_ in stmts for x in ast.walk(s_))
        return any(has_await(s_) for s_ in stmts)

    def _cancel_handlers(fi, via_yield=False, used_in=None):
        """handlers of <fi> that can catch a cancellation delivered at a suspension of their try body must re-raise.
        via_yield: <fi> is a @contextmanager generator wrapped around awaits of a coroutine - the cancellation
        arrives at its `yield`."""
        nonlocal n_handlers
        g = None
        for t in walk_no_nested(fi.node):
            if not isinstance(t, ast.Try):
                continue
            for h in t.handlers:
                tn = ast.unparse(h.type) if h.type is not None else ""
                catches_cancel = h.type is None or "BaseException" in tn or "CancelledError" in tn
                if not catches_cancel:
                    continue
                # only relevant if the try body can be cancelled (contains a suspension)
                if not _suspends(t.body, via_yield):
                    continue
                n_handlers += 1
                g = g or cfg_of(fi)
                hn = g.nodes_for(h)
                body_nodes = set()
                for s in h.body:
                    for sub in ast.walk(s):
                        body_nodes.update(g.nodes_for(sub))
                raises = [n for n in body_nodes if isinstance(n.ast, ast.Raise)]
                bad = False
                for H in hn:
                    # nodes reached only via exc edges out of the handler are propagation, not swallowing
                    normal = g.reach_from(H, avoid=raises, labels_skip=("exc",)) - body_nodes - {H}
                    if normal:
                        bad = True
                where = f" (wrapped around awaits of {used_in})" if used_in else ""
                ctx.ob(rule, f"{fi.qual}::except-{tn or 'bare'}::reraises", not bad,
                       f"{fi.qual}: handler `except {tn}` (L{h.lineno}) can complete without re-raising{where}: a cancellation is swallowed and the task keeps running",
                       loc(fi, h), sample={"rule": "R4a", "function": fi.qual, "handler": tn or "bare", "line": h.lineno})

    def _classes_held_in(attr, depth=3):
        """classes of the package whose instances an attribute / property of that name can hold: `self.<attr> = Cls(...)`
        anywhere, or a property <attr> returning such an attribute"""
        out = []
        if depth <= 0:
            return out
        for k in {id(c_): c_ for cs_ in repo.classes().values() for c_ in cs_}.values():
            for m in k.methods.values():
                if m.name == attr and m.is_property:
                    for r in walk_no_nested(m.node):
                        if isinstance(r, ast.Return) and isinstance(r.value, ast.Attribute):
                            out += _classes_held_in(r.value.attr, depth - 1)
                        elif isinstance(r, ast.Return) and isinstance(r.value, ast.Call):
                            out += _class_of_call(r.value)
                for n in walk_no_nested(m.node):
                    if isinstance(n, (ast.Assign, ast.AnnAssign)) and isinstance(getattr(n, "value", None), ast.Call):
                        for t_ in (n.targets if isinstance(n, ast.Assign) else [n.target]):
                            if isinstance(t_, ast.Attribute) and t_.attr == attr:
                                out += _class_of_call(n.value)
        return out

    def _class_of_call(call):
        f = call.func
        cname = f.id if isinstance(f, ast.Name) else f.attr if isinstance(f, ast.Attribute) else None
        cs = repo.classes().get(cname, []) if cname else []
        return list(cs) if len(cs) == 1 else []

    def _exit_passes_cancellation(fi, call, used_in):
        """`with Cm(...):` / `async with self.lock:` around awaits, Cm a class of the package: its __exit__ / __aexit__
        decides whether the cancellation goes on"""
        nonlocal n_handlers
        if isinstance(call, ast.Call):
            cs = _class_of_call(call)
        elif isinstance(call, ast.Attribute):
            cs = list({id(c_): c_ for c_ in _classes_held_in(call.attr)}.values())
        else:
            cs = []
        for one in cs:
            _one_exit(one, call, used_in)

    def _one_exit(cls_, call, used_in):
        nonlocal n_handlers
        cs = [cls_]
        ex = repo.all_methods(cs[0]).get("__exit__") or repo.all_methods(cs[0]).get("__aexit__")
        if ex is None:
            return
        n_handlers += 1
        rets = [r for r in walk_no_nested(ex.node) if isinstance(r, ast.Return) and r.value is not None]
        verdict = None
        if all(isinstance(r.value, ast.Constant) and not r.value.value for r in rets):
            verdict = True
        else:
            from ..absint import Interp, Obj, Undecided, PyRaise, Builtin
            try:
                it = Interp(repo, max_depth=8)
                from ..absint import Native

                def _lib(it_, node, callee, args, kwargs):
                    nm = getattr(callee, "name", "")
                    if nm == "asyncio.current_task":
                        return Obj(None, {"get_name": Native(lambda a_, k_: "task"), "cancelled": Native(lambda a_, k_: False),
                                          "cancelling": Native(lambda a_, k_: 1), "done": Native(lambda a_, k_: False)}, name="task")
                    return NotImplemented
                it.call_hook = _lib
                r = it.call(ex, Obj(cs[0], {}), [Builtin("asyncio.CancelledError"), Obj(None, {}, name="CancelledError()"), None])
                verdict = not it.truth(r)
            except (Undecided, PyRaise, AnalysisError) as e_:
                ctx.note(f"{rule}: {ex.qual} around awaits of {used_in}: what it answers to a cancellation was not decided ({str(e_)[:80]})")
        if verdict is not None:
            ctx.ob(rule, f"{ex.qual}::passes-cancellation-on", verdict,
                   f"{ex.qual} answers a CancelledError with a true value: `with {ast.unparse(call)[:50]}` in {used_in} swallows the cancellation and the task keeps running",
                   ex.loc, sample={"rule": "R4a", "function": ex.qual, "used_in": used_in})

    seen_cms = set()
    for fi in repo.all_functions():
        if not fi.is_async:
            continue
        _cancel_handlers(fi)
        for t in walk_no_nested(fi.node):
            if isinstance(t, (ast.With, ast.AsyncWith)) and any(has_await(s_) for s_ in t.body):
                for item in t.items:
                    c = item.context_expr
                    if not isinstance(c, ast.Call):
                        if isinstance(c, ast.Attribute) and ("attr", c.attr) not in seen_cms:
                            seen_cms.add(("attr", c.attr))
                            _exit_passes_cancellation(fi, c, fi.qual)
                        continue
                    gens = [f2 for f2 in cg.resolve(fi, c) if any("contextmanager" in ast.unparse(d) for d in f2.node.decorator_list)]
                    for f2 in gens:
                        if id(f2.node) not in seen_cms:
                            seen_cms.add(id(f2.node))
                            _cancel_handlers(f2, via_yield=True, used_in=fi.qual)
                    if not gens:
                        key = ast.unparse(c.func)
                        if key not in seen_cms:
                            seen_cms.add(key)
                            _exit_passes_cancellation(fi, c, fi.qual)
    return n_handlers


def no_shared_defaults(ctx, repo, rule):
    """no constructor keeps a mutable default argument in an instance attribute (evaluated once at definition: every
    object built without it shares that one object)"""
    n_init = 0
    for fi in repo.all_functions():
        if fi.name != "__init__" or fi.cls is None:
            continue
        n_init += 1
        a = fi.node.args
        pos = a.posonlyargs + a.args
        pairs = list(zip(pos[len(pos) - len(a.defaults):], a.defaults)) + [(p_, d_) for p_, d_ in zip(a.kwonlyargs, a.kw_defaults) if d_ is not None]
        for p_, d_ in pairs:
            mutable = isinstance(d_, (ast.List, ast.Dict, ast.Set, ast.ListComp, ast.DictComp, ast.SetComp)) or \
                (isinstance(d_, ast.Call) and not (isinstance(d_.func, ast.Name) and d_.func.id in ("tuple", "frozenset", "int", "str", "bytes", "float", "bool", "object")))
            if not mutable:
                continue
            kept = [n for n in ast.walk(fi.node) if isinstance(n, (ast.Assign, ast.AnnAssign)) and isinstance(getattr(n, "value", None), ast.Name) and n.value.id == p_.arg
                    and any(isinstance(t, ast.Attribute) and isinstance(t.value, ast.Name) and t.value.id == "self" for t in (n.targets if isinstance(n, ast.Assign) else [n.target]))]
            ctx.ob(rule, f"{fi.qual}::{p_.arg}::no-shared-default", not kept,
                   f"{fi.qual}: parameter `{p_.arg}` defaults to `{ast.unparse(d_)}`, evaluated once when the function is defined, and is kept in an instance attribute: every {fi.cls.short} built without it shares that one object "
                   f"(for a connection object: the abandoned connection's queued datagrams are consumed by the next connection's handlers)", loc(fi, d_))
    ctx.floor(rule, "constructors inspected", n_init, 40)


def shared_module_state(ctx, repo, rule, only_under=None):
    """a module-level container that a function fills with objects BUILT FROM ITS CALLER'S DATA under a key that does not
    include that data is a process-wide cache of per-connection objects: `_DECLARATIONS[module_name] = Cls(struct)` hands
    every later connection with the same key the first connection's object (bound to the first connection's
    structure).  A memo whose key determines the value (`_CACHE[text] = compile(text)`) is not that."""
    n = 0
    for m in repo.all_mods():
        if "/driver/packs/" in m.rel or (only_under and only_under not in m.rel):
            continue
        names = {}
        for st in m.tree.body:
            if isinstance(st, ast.Assign) and len(st.targets) == 1 and isinstance(st.targets[0], ast.Name):
                v = st.value
                if isinstance(v, (ast.Dict, ast.List, ast.Set)) or (isinstance(v, ast.Call) and ast.unparse(v.func) in ("dict", "list", "set", "collections.defaultdict", "defaultdict", "collections.OrderedDict", "OrderedDict", "weakref.WeakValueDictionary")):
                    names[st.targets[0].id] = st
        n += len(names)
        if not names:
            continue
        for fi in repo.all_functions():
            if fi.mod is not m:
                continue
            a_ = fi.node.args
            params = {p.arg for p in a_.posonlyargs + a_.args + a_.kwonlyargs} | {"self"}
            for x in walk_no_nested(fi.node):
                key = val = None
                if isinstance(x, ast.Assign) and len(x.targets) == 1 and isinstance(x.targets[0], ast.Subscript) and isinstance(x.targets[0].value, ast.Name) and x.targets[0].value.id in names:
                    key, val, cont = x.targets[0].slice, x.value, x.targets[0].value.id
                elif isinstance(x, ast.Call) and isinstance(x.func, ast.Attribute) and isinstance(x.func.value, ast.Name) and x.func.value.id in names and x.func.attr in ("setdefault", "append", "add", "insert") and x.args:
                    key, val, cont = (x.args[0] if x.func.attr in ("setdefault", "insert") and len(x.args) > 1 else None), x.args[-1], x.func.value.id
                if val is None or not isinstance(val, ast.Call):
                    continue
                key_names = {y.id for y in ast.walk(key) if isinstance(y, ast.Name)} if key is not None else set()
                foreign = sorted({y.id for arg in list(val.args) + [k.value for k in val.keywords] for y in ast.walk(arg) if isinstance(y, ast.Name) and y.id in params and y.id not in key_names})
                ctx.ob(rule, f"{fi.qual}::{cont}::keyed-by-what-it-holds", not foreign,
                       f"{fi.qual} keeps `{ast.unparse(val)[:60]}` in the module-level `{cont}` under a key that does not include {foreign}: the object is built from this caller's {foreign} and handed to every later caller with "
                       f"the same key - a second connection in the process gets declarations bound to the FIRST connection's structure (its inventory is read from the wrong - after a disconnect: zeroed - block)",
                       loc(fi, x), sample={"rule": rule, "function": fi.qual, "container": cont})
    ctx.count(f"{rule}:module-level containers examined", n)


def shared_class_state(ctx, repo, rule, only_under=None):
    """a class-level attribute bound to a mutable object (`cache = {}` in the class body) that a method mutates through
    `self` without the instance ever getting an object of its own is ONE object for every instance: what one
    connection / facade / device stores there is seen by the next"""
    n_cls = 0
    for m in repo.all_mods():
        if "/driver/packs/" in m.rel or (only_under and only_under not in m.rel):
            continue
        for c in m.classes.values():
            n_cls += 1
            for nm, ex in c.consts.items():
                mutable = isinstance(ex, (ast.Dict, ast.List, ast.Set, ast.ListComp, ast.DictComp, ast.SetComp)) or \
                    (isinstance(ex, ast.Call) and ast.unparse(ex.func) in ("dict", "list", "set", "collections.defaultdict", "defaultdict", "collections.OrderedDict", "OrderedDict"))
                if not mutable:
                    continue
                writes, rebound = [], False
                for f in list(c.methods.values()) + list(c.setters.values()):
                    for n in ast.walk(f.node):
                        if isinstance(n, (ast.Assign, ast.AugAssign, ast.AnnAssign, ast.Delete)):
                            tg = n.targets if isinstance(n, (ast.Assign, ast.Delete)) else [n.target]
                            for t in tg:
                                if isinstance(t, ast.Attribute) and t.attr == nm and ast.unparse(t.value) == "self" and not isinstance(n, ast.Delete):
                                    rebound = True
                                if isinstance(t, ast.Subscript) and ast.unparse(t.value) in (f"self.{nm}", f"cls.{nm}", f"{c.short}.{nm}", f"type(self).{nm}"):
                                    writes.append((f, n))
                        if isinstance(n, ast.Call) and isinstance(n.func, ast.Attribute) and n.func.attr in _MUTATORS \
                                and ast.unparse(n.func.value) in (f"self.{nm}", f"cls.{nm}", f"{c.short}.{nm}", f"type(self).{nm}"):
                            writes.append((f, n))
                if writes and not rebound:
                    f, n = writes[0]
                    ctx.ob(rule, f"{c.name}::{nm}::class-level-state-not-mutated", False,
                           f"{c.name}.{nm} is bound once, in the class body, to the mutable `{ast.unparse(ex)}` and {f.qual} mutates it through the instance (L{n.lineno}): "
                           f"every {c.short} in the process shares that one object, so what one connection / facade / device stores there is what the next one reads", loc(f, n))
    ctx.ob(rule, "class-level-mutable-state", True, "")
    ctx.floor(rule, "classes inspected for shared class-level state", n_cls, 40 if not only_under else 3)


def reset_survives_self_cancel(ctx, repo, rule):
    """The automatic reset runs INSIDE the ping-loop task (ping received in an error state ->
    _handle_event -> async_reset -> spa.disconnect), i.e. inside a task that
    cancel_key_tasks(<its key>) cancels.  The CancelledError is delivered at the next await,
    so nothing may suspend between that cancel and the end of the reset, or the reset is
    abandoned half-way (endpoint left open, manager stuck, nothing left to reconnect)."""
    sd = repo.method("GeckoAsyncSpa", "disconnect")
    gsd = cfg_of(sd)
    reset = repo.method("GeckoAsyncSpaMan", "async_reset")
    gr = cfg_of(reset)
    con = repo.method("GeckoAsyncSpa", "_connect")
    from ..facts import connection_tasks
    ping_key = next((t["key"] for t in connection_tasks(repo) if t["coroutine"] == "_ping_loop"), None)   # _connect interpreted
    ctx.ob(rule, "ping-loop::task-key", isinstance(ping_key, str), "cannot determine the task key of the ping loop", con.loc)
    selfc = [n for n, c in gsd.nodes_calling("cancel_key_tasks") if c.args and repo.try_fold(c.args[0], sd.mod, sd.cls) == ping_key]
    for cn in selfc:
        late = sorted((x for x in gsd.reach_from(cn, labels_skip=("exc",)) if x.suspends), key=lambda x: x.lineno)
        ctx.ob(rule, "GeckoAsyncSpa.disconnect::no-await-after-self-cancel", not late,
               f"GeckoAsyncSpa.disconnect suspends ({[f'L{x.lineno}: {x.text()}' for x in late]}) after cancel_key_tasks({ping_key!r}): when the reset runs inside the ping-loop task "
               f"(self-healing path) the CancelledError lands there and the rest of the disconnect/reset is skipped", sd.loc,
               sample={"rule": rule, "cancel_line": cn.lineno, "suspensions_after": [x.lineno for x in late]})
    dcalls = [n for n, c in gr.nodes_calling("disconnect") if receiver(c) == "self._spa"]
    for dn in dcalls:
        late = sorted((x for x in gr.reach_from(dn, labels_skip=("exc",)) if x.suspends), key=lambda x: x.lineno)
        ctx.ob(rule, "GeckoAsyncSpaMan.async_reset::no-await-after-spa-disconnect", not late,
               f"async_reset suspends ({[f'L{x.lineno}' for x in late]}) after the spa disconnect that may have cancelled the running task: the reset would not reach IDLE", reset.loc)


def _escapes(g, start, closers):
    """Can control leave the function exceptionally from `start` without passing a
    closer?  Follows normal edges, and exceptional edges only out of `raise`
    statements and re-raise points (clean-up statements are assumed not to fail)."""
    seen = {start}
    stack = [start]
    while stack:
        n = stack.pop()
        for m, label in g.succ[n]:
            if label == "exc" and not (n.kind == "reraise" or isinstance(n.ast, ast.Raise)):
                continue
            if m in closers or m in seen:
                continue
            if m is g.raise_:
                return True
            seen.add(m)
            stack.append(m)
    return False


def _ord(g, node):
    return [n for n in g.nodes if n.suspends].index(node)


def _try_ord(fi, t):
    i = 0
    for n in walk_no_nested(fi.node):
        if isinstance(n, ast.Try):
            if n is t:
                return i
            i += 1
    return i
