"""C17 - active/idle configuration switching is complete and wakes every sleeper.

R1 complete tables; R2 no mixture observable (synchronous copy, future resolved after
it); R3 sleeper discipline; R4 who sleeps how; R5 active iff any config device is on.
NOT decided: 'wakes at once' / 'never sleeps longer than asked' as measured time.
"""
from __future__ import annotations

import ast

from ..cfg import cfg_of
from ..core import AnalysisError
from ..facts import loc
from ..pathrules import calls_named
from ..src import Repo, call_name, receiver, walk_no_nested

CFG_MOD = "config.py"


def cfg_mod(repo):
    """the module that holds config_sleep (wherever the package keeps it)"""
    for m in repo.all_mods():
        if "config_sleep" in m.functions:
            return m
    return repo.mod(CFG_MOD)


def class_members(c):
    return {k for k in c.consts if not k.startswith("__")}


def sleeper_model(ctx, repo, rule="R3"):
    """config_sleep on a model: module globals are the analysis's, futures are stand-ins, asyncio.wait / wait_for / shield
    are intercepted - what is waited on, with which timeout, whether the shared future could be cancelled by the wait,
    and what the shared future is afterwards"""
    from ..absint import Interp, Native, Obj, PyRaise, Undecided
    m = cfg_mod(repo)
    cs = m.functions.get("config_sleep")
    if cs is None:
        raise AnalysisError("config_sleep vanished")
    idle = m.classes.get("_GeckoIdleConfig")
    # ---- R3 sleeper ----------------------------------------------------------------------------
    # the sleeper on a model (witness scenarios): module globals are the analysis's, futures are stand-ins, and
    # asyncio.wait is intercepted - what is waited on, with which timeout, and what the shared future is afterwards
    def sleeper(initial, delay, cancel=False):
        it = Interp(repo)
        made, waited, cancels = [], [], []

        def mkfut(a_, k_):
            f_ = Obj(None, {"_done": False}, name=f"future{len(made)}")
            f_.attrs["done"] = Native(lambda a2, k2, f_=f_: f_.attrs["_done"])
            f_.attrs["set_result"] = Native(lambda a2, k2, f_=f_: f_.attrs.__setitem__("_done", True))
            made.append(f_)
            return f_

        def hook(it_, node, callee, args, kwargs):
            nm = getattr(callee, "name", "")
            if nm == "asyncio.get_running_loop" or nm == "asyncio.get_event_loop":
                return Obj(None, {"create_future": Native(mkfut)}, name="loop")
            if nm == "asyncio.sleep":
                return Obj(None, {"delay": args[0] if args else kwargs.get("delay")}, name="sleep-coroutine")
            if nm in ("asyncio.ensure_future", "asyncio.create_task") or (getattr(callee, "name", "") or "").endswith(".create_task"):
                inner = args[0] if args else None
                t_ = Obj(None, {"inner": inner, "_cancelled": False}, name="task")
                t_.attrs["cancel"] = Native(lambda a2, k2, t_=t_: t_.attrs.__setitem__("_cancelled", True))
                t_.attrs["done"] = Native(lambda a2, k2: False)
                return t_
            if nm == "asyncio.wait":
                aws = list(args[0]) if args else None
                to = kwargs.get("timeout", "<no timeout>")
                rw = kwargs.get("return_when", "ALL_COMPLETED")
                rw = getattr(rw, "name", rw)
                # a timer raced against the future: FIRST_COMPLETED over {future, task(sleep(d))} is a wait on the future
                # bounded by d
                timers = [a for a in (aws or []) if isinstance(a, Obj) and a.name == "task" and isinstance(a.attrs.get("inner"), Obj) and a.attrs["inner"].name == "sleep-coroutine"]
                if timers and aws is not None:
                    rest = [a for a in aws if a not in timers]
                    if str(rw).endswith("FIRST_COMPLETED") and (to in ("<no timeout>", None)):
                        d_ = timers[0].attrs["inner"].attrs["delay"]
                        waited.append((rest, min([t2.attrs["inner"].attrs["delay"] for t2 in timers]) if len(timers) > 1 else d_))
                    else:
                        waited.append((aws, f"<{rw} over future and timer, timeout {to}>"))
                    if cancel:
                        raise PyRaise("asyncio.CancelledError", node)
                    return (set(), set())
                waited.append((aws, to))
                if cancel:
                    raise PyRaise("asyncio.CancelledError", node)   # the sleeping task is cancelled while it waits
                return (set(), set())
            if nm == "asyncio.shield":
                return Obj(None, {"inner": args[0] if args else None}, name="shield")
            if nm == "asyncio.wait_for":
                tgt = args[0] if args else None
                if isinstance(tgt, Obj) and tgt.name == "shield":
                    tgt = tgt.attrs.get("inner")
                else:
                    cancels.append(tgt)   # wait_for cancels what it awaits when the timeout expires or the waiter is cancelled
                waited.append(([tgt] if args else None, kwargs.get("timeout", args[1] if len(args) > 1 else "<no timeout>")))
                return None
            return NotImplemented
        it.call_hook = hook
        init = None
        if initial == "done":
            init = mkfut(None, None)
            init.attrs["_done"] = True
            made.clear()
        elif initial == "pending":
            init = mkfut(None, None)
            made.clear()
        it.globals = {"ConfigChange": init, "GeckoConfig": Obj(idle)}
        try:
            it.call(cs, None, [delay])
        except PyRaise as e:
            if cancel:
                return {"raises": e.what, "initial": init, "made": made, "waited": waited, "shared": it.globals.get("ConfigChange"), "cancels": cancels}
            return {"raises": e.what}
        except Undecided as e:
            raise AnalysisError(f"config_sleep: {e}")
        return {"initial": init, "made": made, "waited": waited, "shared": it.globals.get("ConfigChange"), "cancels": cancels}

    # a sleeper that is cancelled while it waits (its task is cancelled by a reset) leaves the shared future as the
    # other sleepers know it: still there, still pending - and the cancellation goes on
    for initial in ("none", "pending"):
        r = sleeper(initial, 7, cancel=True)
        waited_on = r.get("waited", [[None]])[0][0] if r.get("waited") else None
        target = waited_on[0] if waited_on else None
        ok = "CancelledError" in str(r.get("raises")) and r.get("shared") is not None and r.get("shared") is target and not r["shared"].attrs["_done"]
        ctx.ob(rule, f"config_sleep::{initial}::cancelled-while-waiting", ok,
               f"config_sleep(7) cancelled during its wait (shared future {initial} before): outcome {r.get('raises')!r}, the shared future afterwards is "
               f"{'the one waited on' if r.get('shared') is target and target is not None else r.get('shared')!r} - expected the CancelledError to propagate and the future the other sleepers are parked on to stay in place",
               cs.loc)
    for initial in ("none", "done", "pending"):
        for delay in (7, 0, 0.0, 2.5):
            r = sleeper(initial, delay)
            key = f"config_sleep::{initial}::delay={delay!r}"
            if "raises" in r:
                ctx.ob(rule, key, False, f"config_sleep({delay!r}) raises {r['raises']} when the shared future is {initial}", cs.loc)
                continue
            shared = r["shared"]
            one_wait = len(r["waited"]) == 1 and r["waited"][0][0] is not None and len(r["waited"][0][0]) == 1 and r["waited"][0][0][0] is shared
            to = r["waited"][0][1] if r["waited"] else None
            to_ok = (not isinstance(to, bool)) and isinstance(to, (int, float)) and to == delay
            if initial == "pending":
                fut_ok = shared is r["initial"] and not r["made"]
                what = "a pending shared future (other sleepers are blocked on it) must be kept"
            else:
                fut_ok = len(r["made"]) == 1 and shared is r["made"][0] and shared is not r["initial"] and not shared.attrs["_done"]
                what = "a missing / already resolved shared future must be replaced by one fresh pending future"
            ctx.ob(rule, key, one_wait and to_ok and fut_ok,
                   f"config_sleep({delay!r}) with the shared future {initial}: waits {[(len(w[0]) if w[0] else None, w[1]) for w in r['waited']]} (on the shared future: {one_wait}), creates {len(r['made'])} future(s) - "
                   f"expected exactly one wait on the shared future with timeout {delay!r}; {what}",
                   cs.loc, sample={"rule": rule, "initial": initial, "delay": delay, "timeout": str(to), "futures_created": len(r["made"])})
            ctx.ob(rule, f"{key}::leaves-the-shared-future-alone", not any(c is shared for c in r["cancels"]),
                   f"config_sleep({delay!r}) awaits the shared future through asyncio.wait_for without a shield: when this sleeper's timeout expires (or it is cancelled) wait_for cancels the future "
                   f"every other sleeper is parked on - they all end with CancelledError (the ping loop dies silently, nothing reports an unreachable spa or wakes on the next switch)", cs.loc)


def config_read_at_definition(ctx, repo, rule, only_mods=None, skip_mods=None):
    """a parameter default is evaluated ONCE, when the `def` is executed (at import): `retry_count=GeckoConfig.X` freezes
    the value the configuration table held at that moment - a later switch of the table, or an application that sets
    the member, is not seen by callers that rely on the default.  Every function parameter default of the package that
    reads a member of the runtime configuration object is reported (the body of the function is the place to read it)."""
    n = 0
    from ..handlermodel import config_tables as _ct
    tabs_ = _ct(repo)
    for fi in repo.all_functions():
        rel = fi.mod.rel
        if "/driver/packs/" in rel or (only_mods and not any(m in rel for m in only_mods)) or (skip_mods and any(m in rel for m in skip_mods)):
            continue
        a = fi.node.args
        pos = a.posonlyargs + a.args
        pairs = list(zip(pos[len(pos) - len(a.defaults):], a.defaults)) + [(p, d) for p, d in zip(a.kwonlyargs, a.kw_defaults) if d is not None]
        for p, d in pairs:
            n += 1
            reads = [x for x in ast.walk(d) if isinstance(x, ast.Attribute) and isinstance(x.value, ast.Name) and x.value.id == "GeckoConfig"]
            if reads:
                ctx.ob(rule, f"{fi.qual}::default::{p.arg}", False,
                       f"{fi.qual}: the default of parameter `{p.arg}` reads `{ast.unparse(reads[0])}` - evaluated once, when the module is imported: callers that rely on the default keep the value the "
                       f"configuration had at import, whatever it is set to afterwards (the configured limit is not the limit in force)", loc(fi, d))
                # ... which the tables make observable as soon as they disagree on that member: then one of the two modes
                # runs with the OTHER mode's value wherever the default is relied on
                for r_ in reads:
                    vals_ = {tn_: t_.get(r_.attr) for tn_, t_ in sorted(tabs_.items()) if r_.attr in t_}
                    ctx.ob(rule, f"{fi.qual}::default::{p.arg}::tables-agree-on::{r_.attr}", len(set(vals_.values())) <= 1,
                           f"{fi.qual}: the default of `{p.arg}` is `{ast.unparse(r_)}` as it was at import, and the configuration tables give {r_.attr} = {vals_}: after a switch of the mode every caller that relies on "
                           f"the default runs with the other table's value (a request is transmitted more often, and holds the lock longer, than the configuration in force allows)", loc(fi, d))
    ctx.ob(rule, "parameter-defaults::examined", n > 0, "no parameter default found in the examined modules")
    ctx.count(f"{rule}:parameter defaults examined", n)


def check(ctx):
    repo = Repo()
    m = cfg_mod(repo)
    ctx.rule("R1", "complete tables: base, active and idle classes define the same member set; CONFIG_MEMBERS is computed from the base class; set_config_mode copies every member of CONFIG_MEMBERS unconditionally from one freshly built table chosen by `active`")
    ctx.rule("R2", "no mixture observable: set_config_mode has no suspension point; the shared future is resolved after the copy loop, guarded by not done()")
    ctx.rule("R3", "sleeper: config_sleep renews the shared future when None or done with no suspension between test and wait; waits on the shared future with timeout = the delay parameter")
    ctx.rule("R4", "who sleeps how: every wait whose argument is a GeckoConfig member uses config_sleep, never asyncio.sleep / time.sleep")
    ctx.rule("R5", "active iff any on: _on_config_device_change passes a flag that starts False and becomes True only under device.is_on over all_config_change_devices (= pumps + blowers), and is watched on exactly those devices")

    base, act, idle = (m.classes.get(n) for n in ("_GeckoConfig", "_GeckoActiveConfig", "_GeckoIdleConfig"))
    if not (base and act and idle):
        raise AnalysisError("config classes vanished")
    mb, ma, mi = class_members(base), class_members(act), class_members(idle)
    ctx.floor("R1", "config members", len(mb), 8)
    ctx.ob("R1", "tables::active-complete", ma == mb, f"_GeckoActiveConfig does not define exactly the base members: missing {sorted(mb - ma)}, extra {sorted(ma - mb)} (a switch would leave the previous mode's value in place: a mixture)", act.loc,
           sample={"rule": "R1", "members": sorted(mb)})
    ctx.ob("R1", "tables::idle-complete", mi == mb, f"_GeckoIdleConfig does not define exactly the base members: missing {sorted(mb - mi)}, extra {sorted(mi - mb)}", idle.loc)
    ctx.ob("R1", "tables::derive-from-base", all("_GeckoConfig" in c.bases for c in (act, idle)), "active/idle tables no longer derive from the base table", act.loc)
    for c in (act, idle):
        for k, v in c.consts.items():
            val = repo.try_fold(v, m)
            ctx.ob("R1", f"{c.short}.{k}::numeric", isinstance(val, (int, float)) and val > 0, f"{c.short}.{k} = {val!r} is not a positive number", c.loc)
    # methods on the base class would be filtered by callable(); properties would not: none may exist
    _props = sorted(k for k, f_ in base.methods.items() if f_.is_property)
    ctx.ob("R1", "_GeckoConfig::only-data-members", not _props, f"_GeckoConfig has properties {_props}: not callable, so they would be copied as settings", base.loc)

    scm = m.functions.get("set_config_mode")
    cs = m.functions.get("config_sleep")
    if scm is None or cs is None:
        raise AnalysisError("set_config_mode / config_sleep vanished")
    g = cfg_of(scm)
    ctx.ob("R2", "set_config_mode::synchronous", not scm.is_async and not any(n.suspends for n in g.nodes), "set_config_mode can suspend: sleepers could observe a half-copied table", scm.loc)
    # R1/R2 by interpretation of /repo's set_config_mode on both arguments: every member of the
    # chosen table is installed, and sleepers are woken only after the last member was copied.
    from ..absint import ClassRef, Interp, Native, Obj, PyRaise, Undecided
    tables_ = {}
    for cls_, nm in ((act, True), (idle, False)):
        tables_[nm] = {k: repo.try_fold(v, m) for k, v in cls_.consts.items()}
        for k, v in base.consts.items():
            tables_[nm].setdefault(k, repo.try_fold(v, m))
    interp = Interp(repo)
    try:
        members = interp.eval(m.consts["CONFIG_MEMBERS"], {"__mod__": m, "__class__": None})
    except (PyRaise, Undecided) as e:
        raise AnalysisError(f"CONFIG_MEMBERS: {e}")
    ctx.ob("R1", "CONFIG_MEMBERS::equals-base-members", sorted(members) == sorted(mb),
           f"CONFIG_MEMBERS evaluates to {sorted(members)}, the base table defines {sorted(mb)}: members outside the list are never switched", m.rel,
           sample={"rule": "R1", "CONFIG_MEMBERS": sorted(members)})
    for active in (True, False):
        for already_done in (False, True):
            events = []
            cfgobj = Obj(idle if active else act)  # start from the OTHER table
            for k, v in tables_[not active].items():
                cfgobj.attrs[k] = v
            fut = Obj(None, {"done": Native(lambda a, k, d=already_done: d), "set_result": Native(lambda a, k: events.append("wake"))})
            interp.globals = {"GeckoConfig": cfgobj, "ConfigChange": fut}
            interp.trace = []
            interp.steps = 0
            orig_trace_len = 0
            try:
                # interleave: record wake position relative to setattr events
                def wake(a, k):
                    events.append(("wake", len(interp.trace)))
                fut.attrs["set_result"] = Native(wake)
                interp.call(scm, None, [active])
            except PyRaise as e:
                ctx.ob("R1", f"set_config_mode({active})::runs", False, f"set_config_mode({active}) raises {e.what}", scm.loc)
                continue
            except Undecided as e:
                raise AnalysisError(f"set_config_mode: {e}")
            key = f"set_config_mode({active})" + ("::future-done" if already_done else "")
            wrong = {k: (cfgobj.attrs.get(k), want) for k, want in tables_[active].items() if cfgobj.attrs.get(k) != want}
            ctx.ob("R1", f"{key}::installs-complete-table", not wrong,
                   f"after set_config_mode({active}) these settings do not hold the {'active' if active else 'idle'} value (got, wanted): {wrong}: a mixture of both tables is in force", scm.loc,
                   sample={"rule": "R1", "active": active, "members_written": len([t for t in interp.trace if t[0] == 'setattr'])})
            wakes = [e for e in events if isinstance(e, tuple)]
            if already_done:
                ctx.ob("R2", f"{key}::no-double-resolve", not wakes, "set_result called on an already resolved future (InvalidStateError)", scm.loc)
            else:
                ctx.ob("R2", f"{key}::wakes-sleepers-once", len(wakes) == 1, f"set_config_mode({active}) resolves the shared future {len(wakes)} times (sleepers are not woken / woken twice)", scm.loc)
                if wakes:
                    n_set = len([t for t in interp.trace if t[0] == "setattr"])
                    ctx.ob("R2", f"{key}::wake-after-copy", wakes[0][1] >= n_set,
                           f"sleepers are woken after {wakes[0][1]} of {n_set} settings were copied: they would read a mixture", scm.loc)
    interp.globals = {}
    glob = m.consts.get("GeckoConfig")
    ctx.ob("R1", "GeckoConfig::starts-as-complete-table", glob is not None and ast.unparse(glob) in ("_GeckoIdleConfig()", "_GeckoActiveConfig()"), "the root config is not an instance of a complete table", m.rel)

    sleeper_model(ctx, repo, "R3")
    ctx.ob("R3", "config_sleep::single-wait", len([n for n in cfg_of(cs).stmt_nodes() if n.suspends]) == 1, "config_sleep has more than one suspension point", cs.loc)
    # the shared future may be replaced only when it is None or done: a pending future that other
    # sleepers are blocked on must never be dropped or rebound (they would miss the next wake-up)
    n_w = 0
    for fi in list(m.functions.values()):
        if fi.name == "config_sleep":
            continue   # decided by the sleeper model above: a pending future is kept, a missing / resolved one replaced - in every scenario
        gfi = cfg_of(fi)
        for n in gfi.stmt_nodes():
            if isinstance(n.ast, (ast.Assign, ast.AnnAssign, ast.AugAssign)):
                tg = n.ast.targets if isinstance(n.ast, ast.Assign) else [n.ast.target]
                if any(ast.unparse(t) == "ConfigChange" for t in tg):
                    n_w += 1
                    facts = gfi.guard_atoms(n)
                    okw = any(p and "ConfigChange is None" in t and "ConfigChange.done()" in t for t, p in facts) or \
                        ("ConfigChange is None", True) in facts or ("ConfigChange.done()", True) in facts
                    ctx.ob("R3", f"{fi.qual}::rebinds-shared-future-only-when-none-or-done::L{n_w}", okw,
                           f"{fi.qual}: the shared ConfigChange future is rebound (`{n.text()}`, L{n.lineno}) while it may still be pending: sleepers blocked on the old future are no longer woken by set_config_mode",
                           loc(fi, n.ast))
    for other in repo.all_mods():
        if other is m:
            continue
        for n in ast.walk(other.tree):
            if isinstance(n, ast.Attribute) and n.attr == "ConfigChange" and isinstance(n.ctx, ast.Store):
                ctx.ob("R3", f"{other.rel}::writes-ConfigChange", False, f"{other.rel} writes config.ConfigChange", other.rel)

    # ---- R4 who sleeps how ------------------------------------------------------------------------
    n_cs = 0
    n_plain = 0
    for fi in repo.all_functions():
        for n in walk_no_nested(fi.node):
            if not isinstance(n, ast.Call):
                continue
            nm = call_name(n)
            args = " ".join(ast.unparse(a) for a in n.args)
            if nm == "config_sleep":
                n_cs += 1
            if nm == "sleep" and ast.unparse(n.func) in ("asyncio.sleep", "time.sleep"):
                n_plain += 1
                ctx.ob("R4", f"{fi.qual}::sleep-{n_plain}", "GeckoConfig." not in args,
                       f"{fi.qual}: `{ast.unparse(n)}` sleeps on a configuration value with a plain sleep: it does not wake when the mode is switched", loc(fi, n))
            if nm == "wait" and ast.unparse(n.func) == "asyncio.wait" and fi.name != "config_sleep":
                to = [ast.unparse(k.value) for k in n.keywords if k.arg == "timeout"]
                ctx.ob("R4", f"{fi.qual}::wait", not any("GeckoConfig." in t for t in to), f"{fi.qual}: waits on a configuration value outside config_sleep", loc(fi, n))
    ctx.floor("R4", "config_sleep sites", n_cs, 4)
    ctx.floor("R4", "plain sleep sites", n_plain, 10)

    # ---- R5 active iff any on ------------------------------------------------------------------------
    # decision by interpretation (vlib/facademodel.py): for every on/off valuation of pumps and blowers (lights do
    # not count) exactly one set_config_mode(any pump or blower on)
    from ..facademodel import mode_decision
    mode_decision(ctx, repo, "R5")
    from ..facademodel import periodic_update_keeps_the_mode
    periodic_update_keeps_the_mode(ctx, repo, "R5")
    from ..facademodel import periodic_update_survives_unanswered_requests
    periodic_update_survives_unanswered_requests(ctx, repo, "R5")
    ctx.rule("R7", "the facade keeps hearing about its devices: a device listener that raised once does not stop later changes of that device from being delivered (C03's Observable model borrowed) - the mode decision is re-evaluated on every pump / blower change")
    from .c03 import observers as _observers
    _observers(ctx.borrowed("R7", "C03", key_contains="failing-observer"), repo)
    ctx.rule("R8", "on means the output is running: for the device classes that drive the mode (pumps, blower) the state item named by the DEVICES row is one of the table's output-state items (all_device_keys), never a user-demand item - a demand can be set while nothing runs, and the spa can run a pump nobody demanded (filter cycle, purge)")
    from ..facts import class_const as _cc
    from ..packs import tables as _tables
    T8 = _tables(repo)
    DEV8 = _cc(repo, "GeckoConstants", "DEVICES")
    drive = {_cc(repo, "GeckoConstants", "DEVICE_CLASS_PUMP"), _cc(repo, "GeckoConstants", "DEVICE_CLASS_BLOWER")}
    n8 = 0
    for d8, row8 in sorted(DEV8.items()):
        if len(row8) < 4 or row8[3] not in drive:
            continue
        having = [m8 for m8 in T8.modules.values() if d8 in m8.props.get("all_device_keys", [])]
        bad8 = [m8.stem for m8 in having if row8[2] not in m8.props.get("all_device_keys", []) or row8[2] in m8.props.get("user_demand_keys", [])]
        if not having:
            continue   # a device class row no shipped table offers (a newer pack's second blower): no such device is ever built
        n8 += 1
        ctx.ob("R8", f"DEVICES::{d8}::state-item-is-an-output-state", not bad8,
               f"GeckoConstants.DEVICES[{d8!r}] names {row8[2]!r} as its state item; in {len(bad8)} of the {len(having)} shipped tables that have the device (e.g. {bad8[:2]}) that is not an output-state item "
               f"(or is a user demand): is_on would follow what was asked for, not what runs", repo.cls("GeckoConstants").loc)
    ctx.floor("R8", "mode-driving DEVICES rows", n8, 6)
    ctx.rule("R6", "what counts as on: GeckoPump and GeckoBlower, built by their constructors on a model spa, read is_on == (state is not 'OFF') for every label of every label list their state items have in any shipped table (pumps OFF/HIGH/LOW and OFF/HIGH, waterfall and blower OFF/ON) and == the flag for Bool items")
    from ..facademodel import device_on_states
    from ..packs import tables
    device_on_states(ctx, repo, "R6", tables(repo))
    ini = repo.own_method("GeckoAsyncFacade", "__init__")
    # by construction: on the facades built for the richest shipped pair of every platform, every config-change device has
    # the facade's _on_config_device_change among its observers (however the registration loop is written)
    from ..buildmodel import config_devices_watched
    n_w, n_dev = 0, 0
    for (plat_, cs_, ls_), (r_, extra_) in sorted(config_devices_watched(repo, tables(repo)).items()):
        if r_ is not None or extra_ is None:
            continue
        missing_, nd_ = extra_
        n_w += 1
        n_dev += nd_
        ctx.ob("R5", f"GeckoAsyncFacade::{plat_}::watches-config-devices", not missing_,
               f"GeckoAsyncFacade built on ({cs_}, {ls_}): the config-change devices {missing_} are not watched with _on_config_device_change - turning them on or off does not switch the configuration", ini.loc)
    ctx.floor("R5", "facades examined for config-device watchers", n_w, 8)
    ctx.floor("R5", "config-change devices examined", n_dev, 20)
    fu = repo.own_method("GeckoAsyncFacade", "_facade_update")
    ctx.ob("R5", "_facade_update::re-evaluates", any(isinstance(n, ast.Call) and call_name(n) == "_on_config_device_change" for n in ast.walk(fu.node)), "the periodic update no longer re-evaluates the mode", fu.loc)
    ctx.note("NOT decided: wake-up latency and 'never sleeps longer than asked' as measured time (asyncio.wait semantics assumed).")
    ctx.assume("asyncio.wait([fut], timeout=d) returns when fut is done or after d seconds, whichever is first")
    ctx.rule("R9", "a pump's change is heard wherever its byte lies in the update: the mode decision hangs on the device's change notification, and that on the item's range filter - the early return is taken only when the replaced range [offset, offset+len) and the item's bytes are disjoint, all orderings of the end points enumerated - a filter that misses an item in the LAST byte of a replaced segment (or any 1-byte segment) leaves the idle table in force while a pump runs, and no sleeper is woken (C03.R4 borrowed)")
    from .c03 import intersection_filter as _if17
    _if17(ctx.borrowed("R9", "C03"), repo)
    ctx.rule("R10", "a change learnt through the refresh is heard too: the periodic block transfer installs what it fetched through the NOTIFYING install (one call for the whole range), so a pump that was switched while its STATP push was lost still reaches the facade's mode decision - a transfer that stores the fetched bytes without notifying the items leaves the idle table in force while the pump runs, until the facade's own pass, up to two minutes later (C01's transfer scenarios, observed at the notifying install, borrowed)")
    from .c01 import async_assembly_model as _aam17
    _aam17(ctx.borrowed("R10", "C01", only=("R3",)), repo, observe="calls")
