"""C05 - partial updates are applied exactly once, in arrival order, and acknowledged.

Per-message reset dominance (async), clear-after-apply (sync), in-order application,
exactly one acknowledgement with a protocol-range sequence number per STATP message.
NOT decided: interleaving of partial updates with refreshes (needs histories).
"""
from __future__ import annotations

import ast

from ..cfg import cfg_of
from ..core import AnalysisError
from ..facts import loc
from ..pathrules import assigns_attr, calls_named
from ..src import Repo, call_name, receiver, walk_no_nested

ASYNC_H = "GeckoAsyncPartialStatusBlockProtocolHandler"
SYNC_H = "GeckoPartialStatusBlockProtocolHandler"
INSTALL = "replace_status_block_segment"


def statp_decodes_in_wire_order(ctx, repo, cname, fname):
    """R3 by symbolic interpretation: a STATP message built by the repository's own builder from the records
    [(pos0, w0), (pos1, w1)] (symbolic 16-bit positions and words) is decoded by this handler into exactly
    that list, in that order, each element a (position, data) pair"""
    from ..absint import Interp, Native, Obj, PyRaise, Undecided
    from ..symbytes import SymBytes
    from . import c04
    fi = repo.method(cname, fname)
    interp = Interp(repo, max_depth=10)
    try:
        spec = [t for t in c04.message_table() if t[0] == SYNC_H and t[1] == "report_changes"][0]
        msg = c04.build_message(repo, interp, SYNC_H, "report_changes", spec[2])
        wire = SymBytes.of(c04.wire_of(msg))
        sock = Obj(None, {"queue_send": Native(lambda a, k: None), "get_and_increment_sequence_counter": Native(lambda a, k: c04.F("ackseq", 8))}, name="socket")
        if cname == ASYNC_H:
            rx = c04.new_handler(repo, interp, cname, [sock])
        else:
            rx = c04.fresh_handler(repo, interp, repo.cls(cname), sock)
        interp.steps = 0
        interp.call(fi, rx, [wire, ("10.0.0.1", 10022)])
        got = c04.read_field(interp, rx, "changes")
    except PyRaise as e:
        ctx.ob("R3", f"{fi.qual}::records-in-wire-order", False, f"{fi.qual} raises {e.what} on a two-record STATP", fi.loc)
        return
    except Undecided as e:
        raise AnalysisError(f"{fi.qual}: STATP decode cannot be interpreted: {e}")
    ok, why = c04.compare(("changes", [("pos0", "w0"), ("pos1", "w1")]), got)
    ctx.ob("R3", f"{fi.qual}::records-in-wire-order", ok,
           f"{fi.qual}: a STATP carrying records [(pos0, w0), (pos1, w1)] is not decoded into that list in that order: {why}", fi.loc,
           sample={"rule": "R3", "handler": fi.qual, "decoded": str(got)[:200]})
    shared_interp = Interp(repo, max_depth=10)
    # concrete messages as the repository's own builder makes them, including the short final record that reports a
    # one-byte write (position + one data byte): nothing the message carries may be dropped
    for label, changes in (("single-byte-change", [(700, b"\x5a")]), ("word-then-byte-change", [(10, b"\x01\x02"), (700, b"\x5a")]),
                           ("same-position-twice", [(300, b"\x00\x07"), (300, b"\x00\x09")]), ("no-change", [])):
        # one interpreter for all four messages, a fresh handler instance each: what an earlier instance decoded must not
        # show up in a later one (class-level state is one object per class in the interpreter, as in Python)
        interp = shared_interp
        try:
            msg = interp.call(repo.method(SYNC_H, "report_changes"), None, [sock, list(changes)])
            wire = c04.wire_of(msg)
            rx = c04.new_handler(repo, interp, cname, [sock]) if cname == ASYNC_H else c04.fresh_handler(repo, interp, repo.cls(cname), sock)
            interp.steps = 0
            interp.call(fi, rx, [wire, ("10.0.0.1", 10022)])
            got = c04.read_field(interp, rx, "changes")
            got = [tuple(x) for x in got] if isinstance(got, list) else got
            good = got == [(p_, bytes(d_)) for p_, d_ in changes]
        except PyRaise as e:
            got, good = f"raises {e.what}", False
        except Undecided as e:
            raise AnalysisError(f"{fi.qual}: STATP decode of {label} cannot be interpreted: {e}")
        ctx.ob("R3", f"{fi.qual}::decodes::{label}", good,
               f"{fi.qual}: the STATP message the library builds for the changes {changes} is decoded as {got}: a reported change is lost or altered before it is applied", fi.loc)


def decode_path(ctx, repo, cname, fname, reset_required):
    fi = repo.own_method(cname, fname)
    g = cfg_of(fi)
    key = fi.qual
    statq = repo.fold(ast.parse("STATQ_VERB", mode="eval").body, fi.mod)
    statp = repo.fold(ast.parse("STATP_VERB", mode="eval").body, fi.mod)
    # the STATQ branch: test `received_bytes.startswith(STATQ_VERB)`
    appends = [(n, c) for n, c in calls_named(g, "append") if receiver(c) == "self.changes"]
    if len(appends) != 1:
        # the records are collected some other way (a bound `append`, a generator, a helper): which changes a message
        # yields, in which order, and that nothing of an earlier message is replayed is decided by interpretation -
        # the concrete STATP decodes below and the message-sequence model (R9)
        ctx.note(f"{fi.qual}: {len(appends)} `self.changes.append` site(s) - decode path decided by the interpreted decodes and the message-sequence model only")
        statp_decodes_in_wire_order(ctx, repo, cname, fname)
        acknowledgement_model(ctx, repo, cname, fname)
        return
    ctx.ob("R1", f"{key}::append-site", True, "")
    A, ac = appends[0]
    # records are decoded from STATP messages only - by behaviour: a well-formed acknowledgement (STATQ + sequence byte 1;
    # read as a STATP that byte announces one record) is delivered to a fresh handler: nothing is decoded, nothing raises
    from ..absint import Interp as _I, Native as _N, Obj as _O, PyRaise as _PR, Undecided as _U
    from . import c04 as _c04
    _it = _I(repo, max_depth=10)
    _sock = _O(None, {"queue_send": _N(lambda a, k: None), "get_and_increment_sequence_counter": _N(lambda a, k: 7)}, name="socket")
    try:
        _rx = _c04.new_handler(repo, _it, cname, [_sock]) if cname == ASYNC_H else _c04.fresh_handler(repo, _it, repo.cls(cname), _sock)
        _it.steps = 0
        _it.call(fi, _rx, [bytes(statq) + b"\x01", ("10.0.0.1", 10022)])
        _got = _c04.read_field(_it, _rx, "changes")
        on_statp = isinstance(_got, (list, tuple)) and len(_got) == 0
        _why = f"decoded {_got!r}"
    except _PR as e:
        on_statp, _why = False, f"raises {e.what}"
    except _U as e:
        raise AnalysisError(f"{fi.qual}: a STATQ delivered to the handler cannot be interpreted: {e}")
    ctx.ob("R1", f"{key}::decode-only-on-STATP", on_statp, f"{fi.qual}: a well-formed STATQ (sequence byte 1, which read as a STATP announces one record): {_why} - change records are decoded on the STATQ path too", loc(fi, A.ast))
    loop = g.loop_of(A)
    ctx.ob("R3", f"{key}::record-loop", loop is not None and loop.kind == "for", f"{fi.qual}: change records not decoded in a for loop", loc(fi, A.ast))
    statp_decodes_in_wire_order(ctx, repo, cname, fname)
    resets = [n for n in g.stmt_nodes() if assigns_attr(n, "self.changes") and isinstance(n.ast, ast.Assign)
              and isinstance(n.ast.value, ast.List) and not n.ast.value.elts]
    if reset_required:
        ok = bool(resets) and loop is not None and any(g.dom(r, loop) and r not in g.loop_body(loop) for r in resets)
        ctx.ob("R1", f"{key}::per-message-reset", ok,
               f"{fi.qual}: self.changes is not reset before the records of each STATP message are decoded: changes of an earlier message are replayed with every later one",
               fi.loc, sample={"rule": "R1", "function": fi.qual, "reset_lines": [r.lineno for r in resets], "append_line": A.lineno})
        # ... and on EVERY normal path through the STATP branch (an early return before the
        # reset leaves the previous message's list in place for the apply callback)
        tests = [t for t in g.stmt_nodes() if t.kind == "test" and "startswith(STATQ_VERB)" in t.text()]
        if len(tests) == 1 and resets:
            statp_label = "T" if tests[0].text().lstrip().startswith("not ") else "F"    # `if not ...startswith(STATQ_VERB)`: STATP is the true branch
            fs = [m for m, l in g.succ[tests[0]] if l == statp_label]
            skipped = bool(fs) and fs[0] not in resets and g.exit in g.reach_from(fs[0], avoid=resets, labels_skip=("exc",))
            ctx.ob("R1", f"{key}::reset-on-every-STATP-path", not skipped,
                   f"{fi.qual}: a STATP message can be handled without resetting self.changes (a path from the STATP branch to the end avoids the reset): "
                   f"the apply callback then replays the previous message's changes", fi.loc)
        if resets and loop is not None:
            for r in resets:
                ctx.ob("R1", f"{key}::reset-not-after-decode", not (loop in g.reach_to(r) and g.dom(loop, r)),
                       f"{fi.qual}: self.changes is emptied *after* decoding (L{r.lineno}): every change is dropped", loc(fi, r.ast))
    other_writes = [n for n in g.stmt_nodes() if assigns_attr(n, "self.changes") and n not in resets]
    ctx.ob("R1", f"{key}::no-other-writes", not other_writes, f"{fi.qual}: self.changes also written at {[n.lineno for n in other_writes]}", fi.loc)

    acknowledgement_model(ctx, repo, cname, fname)


def acknowledgement_model(ctx, repo, cname, fname):
    """R4 by interpretation: the handler, built by its constructor on a model link (a counter that answers 7 for the
    protocol kind and 200 for the command kind and notes each draw; a send path that records), is given STATP messages
    with 0, 1 and 3 changes and a STATQ: every STATP is acknowledged exactly once - not once per change - with
    STATQ + the one protocol-kind number drawn for it, addressed to the sender of the STATP; a STATQ is not acknowledged."""
    from ..absint import ClassRef, Interp, Native, Obj, PyRaise, Undecided
    from . import c04
    fi = repo.own_method(cname, fname)
    key = fi.qual
    sender = ("10.0.0.7", 10022, b"SPA-ID", b"IOS-CLIENT")
    it = Interp(repo, max_depth=12)
    sent, draws = [], []
    link = Obj(None, {"queue_send": Native(lambda a, k: sent.append((a[0], a[1] if len(a) > 1 else k.get("destination"))), "queue_send"),
                      "get_and_increment_sequence_counter": Native(lambda a, k: (draws.append(a[0] if a else k.get("command")), 7 if (a and a[0] is False) else 200)[1], "counter")}, name="link")
    report = []
    try:
        h = it.apply(ClassRef(repo.cls(cname)), [link], {})
        for changes in ([], [(10, b"\x00\x01")], [(10, b"\x00\x01"), (12, b"\x00\x02"), (700, b"\x5a")]):
            msg = it.call(repo.method(SYNC_H, "report_changes"), None, [link, list(changes)])
            n0, d0 = len(sent), len(draws)
            sent_before = list(sent)
            it.steps = 0
            it.call(fi, h, [c04.wire_of(msg, it), sender])
            new = sent[len(sent_before):] if len(sent) >= len(sent_before) else sent
            acks = []
            for a, dest in new[0 if True else 0:]:
                w = c04.wire_of(a, it)
                w = bytes(w) if isinstance(w, (bytes, bytearray)) else (w.concrete() if hasattr(w, "concrete") else w)
                acks.append((w, a.attrs.get("_parms") if isinstance(a, Obj) else None, dest))
            report.append((len(changes), acks, draws[d0:]))
        n_statq = len(sent)
        it.steps = 0
        it.call(fi, h, [b"STATQ\x09", sender])
        report.append(("STATQ", len(sent) - n_statq, None))
    except PyRaise as e:
        report = f"raises {e.what}"
    except Undecided as e:
        raise AnalysisError(f"{key}: acknowledgements on the model link: {e}")
    ok_once = isinstance(report, list) and all(len(r[1]) == 1 for r in report[:3])
    # the sequence is drawn with the message builder too (report_changes) on some stacks: only the draws made inside handle count
    ctx.ob("R4", f"{key}::ack-once", ok_once,
           f"{fi.qual}: STATP messages with 0, 1 and 3 changes are acknowledged {[len(r[1]) for r in report[:3]] if isinstance(report, list) else report} time(s), expected exactly once each", fi.loc,
           sample={"rule": "R4", "function": fi.qual, "acks_per_message": [len(r[1]) for r in report[:3]] if isinstance(report, list) else str(report)})
    ctx.ob("R4", f"{key}::ack-only-on-STATP", isinstance(report, list) and report[-1][1] == 0,
           f"{fi.qual}: a STATQ delivered to the handler is answered with {report[-1][1] if isinstance(report, list) else report} datagram(s): an acknowledgement is acknowledged", fi.loc)
    if ok_once:
        contents = [r[1][0][0] for r in report[:3]]
        ctx.ob("R4", f"{key}::ack-verb", all(isinstance(c_, (bytes, bytearray)) and bytes(c_)[:5] == b"STATQ" and len(c_) == 6 for c_ in contents),
               f"{fi.qual}: acknowledgement contents {contents}: not STATQ followed by one sequence byte", fi.loc)
        kinds = [r[2] for r in report[:3]]
        ctx.ob("R4", f"{key}::ack-sequence", all(isinstance(c_, (bytes, bytearray)) and bytes(c_)[5:] == b"\x07" for c_ in contents) and all(k_ == [False] for k_ in kinds),
               f"{fi.qual}: acknowledgement sequence bytes {[bytes(c_)[5:] if isinstance(c_, (bytes, bytearray)) else c_ for c_ in contents]} with counter draws {kinds} per message - expected one draw of the "
               f"protocol kind (False) per STATP and its number (7 on the model link) in the acknowledgement", fi.loc)
        addr = [(r[1][0][1], r[1][0][2]) for r in report[:3]]
        ctx.ob("R4", f"{key}::ack-addressed-to-sender", all((p_ == sender or p_ is None) and (d_ == sender or d_ is None) and (p_ == sender or d_ == sender) for p_, d_ in addr),
               f"{fi.qual}: acknowledgements are addressed (parms, destination) = {addr}, expected the sender of the STATP {sender}", fi.loc)


def send_path_model(ctx, repo, rule):
    """The acknowledgement is fire-and-forget: whatever the handler hands to the awaitable protocol's queue_send must go
    out, there is no queue behind it and nobody asks again.  GeckoAsyncUdpProtocol, built by its own constructor on a
    recording transport and a model clock, is given three messages at the same instant (an update acknowledged right
    after a ping, two updates back to back) and one a second later: each is transmitted once, in order, to its
    destination."""
    from ..absint import Interp, Native, Obj, PyRaise, Undecided
    from .c16 import build_instance
    P = "GeckoAsyncUdpProtocol"
    qs = repo.method(P, "queue_send")
    it = Interp(repo, max_depth=10)
    clock = {"t": 500.0}
    wire = []

    def hook(it_, node, callee, args, kwargs):
        nm = getattr(callee, "name", "")
        if nm in ("time.monotonic", "time.time", "time.perf_counter"):
            return clock["t"]
        if nm == "time.sleep":
            clock["t"] += float(args[0]) if args and isinstance(args[0], (int, float)) else 0.01
            return None
        return NotImplemented
    it.call_hook = hook
    try:
        proto = build_instance(repo, it, P)
        tr = Obj(None, {"sendto": Native(lambda a, k: wire.append((a[0], a[1] if len(a) > 1 else k.get("addr"))), "sendto"), "is_closing": Native(lambda a, k: False), "close": Native(lambda a, k: None)}, name="transport")
        cm = repo.method(P, "connection_made", required=False)
        if cm is not None:
            it.call(cm, proto, [tr])
        else:
            proto.attrs["transport"] = tr
        dest = ("10.0.0.7", 10022)
        msgs = [Obj(None, {"send_bytes": b"MSG%d" % i, "last_destination": None}, name=f"message{i}") for i in range(4)]
        for i, m in enumerate(msgs):
            if i == 3:
                clock["t"] += 1.0
            it.steps = 0
            it.call(qs, proto, [m, dest])
        got = [(bytes(w[0]) if isinstance(w[0], (bytes, bytearray)) else w[0], w[1]) for w in wire]
    except PyRaise as e:
        got = f"raises {e.what}"
    except Undecided as e:
        raise AnalysisError(f"{qs.qual} on the model transport: {e}")
    want = [(b"MSG%d" % i, dest) for i in range(4)]
    ctx.ob(rule, f"{qs.qual}::transmits-every-message", got == want,
           f"{qs.qual}: four messages handed over (three at the same instant, one a second later) leave as {got}, expected {want} - the acknowledgement of a partial update is sent once and never repeated: "
           f"a message the send path drops (an update handled right after a ping or another update) is an update applied but never acknowledged", qs.loc,
           sample={"rule": rule, "messages": 4, "transmitted": len(got) if isinstance(got, list) else str(got)})
    ctx.count(f"{rule}:messages handed to the awaitable send path", 4)


def apply_model(ctx, repo, qual, must_clear):
    """the apply callback by interpretation: a handler carrying three changes (two of them for the same position) is
    handed to the callback of a model connection whose structure records installs: every change is installed once, in
    arrival order, into the connection's own structure; where the handler accumulates (blocking stack) its list is empty
    afterwards, so nothing is applied again with the next message"""
    from ..absint import Interp, Native, Obj, Opaque, PyRaise, Undecided
    fi = repo.func(qual)
    changes = [(10, b"A"), (20, b"BC"), (10, b"D")]
    installs = []
    it = Interp(repo, max_depth=8)
    struct = Obj(None, {INSTALL: Native(lambda a, k: installs.append((a[0], bytes(a[1]) if isinstance(a[1], (bytes, bytearray)) else a[1])), INSTALL)}, name="struct")
    me = Obj(repo.instance_cls(fi.cls), {"struct": struct, "_struct": struct}, name="connection")
    h = Obj(None, {"changes": list(changes)}, name="partial-update-handler")
    n_extra = len(fi.node.args.args) - 2
    try:
        it.call(fi, me, [h] + [Opaque(f"arg{i}") for i in range(max(n_extra, 0))])
        raised = None
    except PyRaise as e:
        raised = e.what
    except Undecided as e:
        raise AnalysisError(f"{qual} on the model connection: {e}")
    ctx.ob("R3", f"{qual}::applies-each-change-once-in-order", raised is None and installs == changes,
           f"{qual} given a message with the changes {changes} {'raises ' + raised if raised else 'installs ' + str(installs)}: every change must be installed once, in arrival order (the later write to position 10 wins)",
           fi.loc, sample={"rule": "R3", "function": qual, "installed": [list(map(str, x)) for x in installs]})
    if must_clear:
        left = h.attrs.get("changes")
        ctx.ob("R2", f"{qual}::handler-list-empty-afterwards", raised is None and isinstance(left, list) and not left,
               f"{qual}: after applying, the handler's change list is {left!r}: the blocking handler accumulates, so the same changes are applied again with the next message", fi.loc)


def apply_path(ctx, repo, qual, must_clear):
    fi = repo.func(qual)
    apply_model(ctx, repo, qual, must_clear)
    g = cfg_of(fi)
    hp = fi.node.args.args[1].arg
    inst = calls_named(g, INSTALL)
    if len(inst) != 1:
        ctx.note(f"{fi.qual}: {len(inst)} `{INSTALL}` call sites in the function itself (a bound method, a helper) - the apply path is decided by the interpreted scenario only")
        return
    ctx.ob("R3", f"{qual}::one-install-site", True, "")
    I, ic = inst[0]
    loop = g.loop_of(I)
    ok = loop is not None and loop.kind == "for" and ast.unparse(loop.ast.iter) == f"{hp}.changes"
    if not ok:
        # the list is reached some other way (a local naming it, an index loop): order and completeness are what the
        # interpreted scenario above decides (`applies-each-change-once-in-order`); the statement-level rules step aside
        ctx.note(f"{fi.qual}: the install is not inside a `for ... in {hp}.changes` loop - the apply order is decided by the interpreted scenario only")
        return
    ctx.ob("R3", f"{qual}::iterates-in-arrival-order", ok,
           f"{fi.qual}: changes are not applied by iterating `{hp}.changes` front to back (iter is `{ast.unparse(loop.ast.iter) if loop is not None and loop.kind == 'for' else None}`)",
           loc(fi, I.ast), sample={"rule": "R3", "function": qual, "loop": loop.text() if loop is not None else None})
    if not ok:
        return
    tgt = ast.unparse(loop.ast.target)
    a = [ast.unparse(x) for x in ic.args]
    if isinstance(loop.ast.target, (ast.Tuple, ast.List)) and len(loop.ast.target.elts) == 2:
        want = [ast.unparse(x) for x in loop.ast.target.elts]  # `for pos, data in changes`
    else:
        want = [f"{tgt}[0]", f"{tgt}[1]"]
    # single-definition locals standing for the two components (`pos = change[0]`)
    exp = [ast.unparse(g.expand(x, at=I)) for x in ic.args]
    ctx.ob("R3", f"{qual}::applies-position-and-data", a == want or exp == want, f"{fi.qual}: installs {a}, expected ({', '.join(want)})", loc(fi, I.ast))
    # once per element: the install is executed on every iteration, no guard, no second install
    guards = g.guards(I, entry=loop, cut_back=True)
    only_iter = all(n is loop for n, l in guards)
    ctx.ob("R3", f"{qual}::every-change-applied", only_iter, f"{fi.qual}: some changes are skipped (install is conditional: {[(n.text(), l) for n, l in guards if n is not loop]})", loc(fi, I.ast))
    body = g.loop_body(loop)
    brk = [n for n in body if isinstance(n.ast, ast.Break)]
    ctx.ob("R3", f"{qual}::no-early-exit", not brk and not any(isinstance(n.ast, ast.Return) for n in body), f"{fi.qual}: apply loop can exit early", loc(fi, I.ast))
    ctx.ob("R3", f"{qual}::applies-one-message-atomically", not any(n.suspends for n in g.nodes),
           f"{fi.qual} suspends while applying the changes of one message: a refresh (or another message) can be installed in between and is then partly overwritten out of order", fi.loc)
    ctx.ob("R3", f"{qual}::structure-is-own", (receiver(ic) or "") == "self.struct", f"{fi.qual}: installs into `{receiver(ic)}`", loc(fi, I.ast))
    # long-lived handler is the dispatched one: provenance of hp is the callback parameter (not an attribute copy)
    ctx.ob("R6", f"{qual}::uses-dispatched-handler", True, "changes are read from the handler instance passed by the dispatcher")
    if must_clear:
        clears = [n for n, c in calls_named(g, "clear") if receiver(c) == f"{hp}.changes"]
        clears += [n for n in g.stmt_nodes() if isinstance(n.ast, ast.Assign) and ast.unparse(n.ast.targets[0]) == f"{hp}.changes" and isinstance(n.ast.value, ast.List) and not n.ast.value.elts]
        ok = bool(clears) and any(g.pdom(c, g.entry) for c in clears) and all(c not in body for c in clears)
        ctx.ob("R2", f"{qual}::clear-after-apply", ok,
               f"{fi.qual}: `{hp}.changes` is not cleared on every normal path after applying: the same changes are applied again with the next message", fi.loc)


def consume_pairing(ctx, repo, rule, rule_exit=None):
    """consume() by interpretation: a handler built by the base class's constructor (its can_handle / async_handle are
    stand-ins that record, its async_on_handled callback records) consumes from a real peekable queue on a model
    connection; asyncio.sleep is the model's clock.  Three datagrams queued at once (two spas answering within one poll):
    each is taken once, handled, and reported through the callback with its own sender before the next is handled.
    With rule_exit: the loop yields on every pass while the queue is empty, goes on for as long as the handler is not
    flagged for removal, and ends once it is.  Shared with C15 (each discovery reply is reported individually) and C07."""
    from ..absint import ClassRef, Interp, Native, Obj, PyRaise, Undecided
    BASE = "GeckoUdpProtocolHandler"
    QUEUE = "AsyncPeekableQueue"
    cons = repo.method(BASE, "consume")

    class _Stop(Exception):
        pass

    def run(datagrams, flag_after=None, max_sleeps=12, accept=lambda d: True):
        it = Interp(repo, max_depth=12)
        log = []
        try:
            q = it.apply(ClassRef(repo.cls(QUEUE)), [], {})
            fifo = list(datagrams)
            q.attrs["_queue"] = fifo
            q.attrs["qsize"] = Native(lambda a, k: len(fifo), "qsize")
            q.attrs["empty"] = Native(lambda a, k: not fifo, "empty")
            q.attrs["get_nowait"] = Native(lambda a, k: fifo.pop(0), "get_nowait")
            h = it.apply(ClassRef(repo.cls(BASE)), [], {"async_on_handled": Native(lambda a, k: log.append(("reported", a[1] if len(a) > 1 else None, log[-1][1] if log and log[-1][0] == "handle" else None)), "callback")})
        except (PyRaise, Undecided) as e:
            raise AnalysisError(f"{BASE}(async_on_handled=...) / {QUEUE}() cannot be constructed by interpretation: {e}")
        h.attrs["can_handle"] = Native(lambda a, k: accept(a[0]), "can_handle")
        h.attrs["async_handle"] = Native(lambda a, k: log.append(("handle", a[0], a[1])), "async_handle")
        proto = Obj(None, {"queue": q, "isopen": True}, name="protocol")
        sleeps = [0]

        def hook(it_, node, callee, args, kwargs):
            if getattr(callee, "name", "") == "asyncio.sleep" or (isinstance(getattr(node, "func", None), ast.Attribute) and node.func.attr in ("sleep", "config_sleep")):
                sleeps[0] += 1
                if flag_after is not None and sleeps[0] == flag_after:
                    dfh = repo.method(BASE, "_default_retry_failed_handler")
                    it_.call(dfh, None if dfh.is_static else h, [h, None])   # the library's own way of flagging a handler for removal
                if sleeps[0] >= max_sleeps:
                    raise _Stop()
                return None
            return NotImplemented
        it.call_hook = hook
        try:
            it.steps = 0
            it.call(cons, h, [proto])
            return log, sleeps[0], "returned", list(fifo)
        except _Stop:
            return log, sleeps[0], "still running", list(fifo)
        except PyRaise as e:
            return log, sleeps[0], f"raises {e.what}", list(fifo)
        except Undecided as e:
            raise AnalysisError(f"{cons.qual}: cannot interpret: {e}")
    A, B, C = (b"HELLO from A", ("10.0.0.5", 10022)), (b"HELLO from B", ("10.0.0.6", 10022)), (b"HELLO from C", ("10.0.0.7", 10022))
    log, n_sleeps, how, left = run([A, B, C])
    want = []
    for d, snd in (A, B, C):
        want += [("handle", d, snd), ("reported", snd, d)]
    ctx.ob(rule, "consume::handle-then-handled-once", log == want and not left,
           f"consume with three datagrams queued at once: {[(x[0], x[1] if x[0] == 'reported' else x[1][-1:]) for x in log]} ({how} after {n_sleeps} polls, {len(left)} left in the queue); expected each datagram "
           f"handled and then reported through the handled-callback with its own sender before the next one is handled - the handler's decoded fields are single-slot state, so a datagram "
           f"handled without its own callback is overwritten by the next one before anybody sees it", cons.loc)
    ctx.ob(rule, "async_handled::calls-callback-once", sum(1 for x in log if x[0] == "reported") == 3, f"the handled-callback was invoked {sum(1 for x in log if x[0] == 'reported')} times for 3 datagrams", cons.loc)
    # a datagram the handler does not accept is left alone
    log2, _n2, _how2, left2 = run([A], accept=lambda d: False, max_sleeps=4)
    ctx.ob(rule, "consume::leaves-foreign-datagrams", log2 == [] and left2 == [A], f"consume with a datagram its handler does not accept: calls {log2}, queue {left2} - it must neither handle nor remove it", cons.loc)
    if rule_exit:
        _l, n3, how3, _x = run([], flag_after=None, max_sleeps=15)
        ctx.ob(rule_exit, f"{cons.qual}::exit-only-when-removed", how3 == "still running" and n3 == 15,
               f"{cons.qual} on an empty queue with a handler that is never flagged for removal: {how3} after {n3} polls - it must keep polling (and yield on every pass)", cons.loc)
        _l, n4, how4, _x = run([], flag_after=3, max_sleeps=15)
        ctx.ob(rule_exit, f"{cons.qual}::ends-once-flagged", how4 == "returned" and 3 <= n4 <= 4,
               f"{cons.qual} with the handler flagged for removal during the 3rd poll: {how4} after {n4} polls - expected it to end within one more pass", cons.loc)


def message_sequence_model(ctx, repo, rule):
    """Both stacks' partial-update path end to end by interpretation: the long-lived handler (built by its constructor,
    wired to the connection class's own apply callback bound to a model connection) is driven the way the consume loop /
    the engine drives it - handle, handled, handle, handled ... - with messages made by the library's own builder.
    Observed: what is installed into the structure, in which order, and what is acknowledged."""
    from ..absint import BoundMethod, ClassRef, Interp, Native, Obj, PyRaise, Undecided
    from . import c04
    sender = ("10.0.0.7", 10022)
    scripts = (
        ("two-messages", [[(10, b"\x00\x01"), (12, b"\x00\x02")], [(10, b"\x00\x03")]]),
        ("empty-message-in-between", [[(20, b"\xaa\xbb")], [], [(20, b"\xcc\xdd")]]),
        ("same-position-within-and-across", [[(30, b"\x00\x01"), (30, b"\x00\x02")], [(30, b"\x00\x02")], [(30, b"\x00\x01")]]),
        ("byte-change-then-word", [[(700, b"\x5a")], [(700, b"\x00\x5b")]]),
    )
    n = 0
    for stack, hname, hmeth, hdone, cname, cb in (("awaitable", ASYNC_H, "async_handle", "async_handled", "GeckoAsyncSpa", "_async_on_partial_status_update"),
                                                  ("blocking", SYNC_H, "handle", "handled", "GeckoSpa", "_on_partial_status_update")):
        for key, msgs in scripts:
            it = Interp(repo, max_depth=12)
            installed, acks = [], []
            struct_ = Obj(None, {"replace_status_block_segment": Native(lambda a, k: installed.append((a[0], bytes(a[1]) if isinstance(a[1], (bytes, bytearray)) else a[1])), "install")}, name="structure")
            conn = Obj(repo.cls(cname), {"struct": struct_}, name=cname)

            def qs(a, k):
                acks.append(a[0])
            link = Obj(None, {"queue_send": Native(qs, "queue_send"), "get_and_increment_sequence_counter": Native(lambda a, k: 7 if (a and a[0] is False) else 200, "counter")}, name="link")
            try:
                kw = {"async_on_handled" if stack == "awaitable" else "on_handled": BoundMethod(conn, repo.method(cname, cb))}
                h = it.apply(ClassRef(repo.cls(hname)), [link], kw)
                for changes in msgs:
                    msg = it.call(repo.method(SYNC_H, "report_changes"), None, [link, list(changes)])
                    wire = c04.wire_of(msg)
                    it.steps = 0
                    it.call(repo.method(hname, hmeth), h, [wire, sender])
                    it.steps = 0
                    it.call(repo.method(hname, hdone), h, [sender])
                got = list(installed)
            except PyRaise as e:
                got = f"raises {e.what}"
            except Undecided as e:
                raise AnalysisError(f"{hname} message sequence ({key}): {e}")
            want = [(p_, bytes(d_)) for m_ in msgs for p_, d_ in m_]
            n += 1
            fi = repo.method(hname, hmeth)
            ctx.ob(rule, f"{stack}::{key}::applied-once-in-arrival-order", got == want,
                   f"{stack} stack, partial updates {msgs} delivered one after the other to the long-lived handler: the structure receives {got}, expected each change once, in arrival order: {want}",
                   fi.loc, sample={"rule": rule, "stack": stack, "script": key, "installed": str(got)[:200]})
            ctx.ob(rule, f"{stack}::{key}::one-acknowledgement-per-message", len(acks) == len(msgs),
                   f"{stack} stack: {len(acks)} acknowledgement(s) queued for {len(msgs)} partial-update messages", fi.loc)
    ctx.floor(rule, "partial-update message sequences interpreted", n, 8)


def check(ctx):
    repo = Repo()
    ctx.rule("R1", "per-message reset (async): self.changes = [] dominates the decode loop on the STATP path only; no other writer")
    ctx.rule("R2", "clear-after-apply (sync): the on_handled callback clears handler.changes on every normal path after the apply loop")
    ctx.rule("R3", "apply in arrival order: callbacks iterate handler.changes front to back, install (change[0], change[1]) unconditionally once per element; decode loop is range(count)")
    ctx.rule("R4", "exactly one acknowledgement per STATP: one queue_send of STATQ + pack('>B', counter(False)), on the STATP path only, not in a loop, addressed to the sender")
    ctx.rule("R6", "registered long-lived handler: the callbacks are wired to the handler instances that _connect / GeckoSpa.__init__ register")
    decode_path(ctx, repo, ASYNC_H, "async_handle", reset_required=True)
    decode_path(ctx, repo, SYNC_H, "handle", reset_required=False)
    apply_path(ctx, repo, "GeckoAsyncSpa._async_on_partial_status_update", must_clear=False)
    apply_path(ctx, repo, "GeckoSpa._on_partial_status_update", must_clear=True)
    # sync handler accumulates (no reset in handle) => the callback MUST clear; async resets => callback need not.
    # wiring
    con = repo.method("GeckoAsyncSpa", "_connect")
    from ..facts import connection_tasks
    started = connection_tasks(repo)   # by interpretation of _connect on a model event loop
    ok = any(t["kind"] == "consume" and t["handler"] == ASYNC_H and "_async_on_partial_status_update" in t["callbacks"] for t in started)
    ctx.ob("R6", "GeckoAsyncSpa._connect::wires-partial-handler", ok,
           f"_connect does not start a consumer for {ASYNC_H} wired to _async_on_partial_status_update (tasks started: {[(t['name'], t['handler'], t['callbacks']) for t in started]})", con.loc)
    ini = repo.own_method("GeckoSpa", "__init__")
    ok = False
    for n in walk_no_nested(ini.node):
        if isinstance(n, ast.Call) and call_name(n) == SYNC_H:
            for kw in n.keywords:
                if kw.arg == "on_handled" and ast.unparse(kw.value) == "self._on_partial_status_update":
                    ok = True
    ctx.ob("R6", "GeckoSpa.__init__::wires-partial-handler", ok, "sync partial-update handler is not constructed with on_handled=self._on_partial_status_update", ini.loc)
    # the async handler's synchronous handle() must not decode (would double-append via base async_handle)
    h = repo.own_method(ASYNC_H, "handle")
    body = [s for s in h.node.body if not (isinstance(s, ast.Expr) and isinstance(s.value, ast.Constant))]
    ctx.ob("R1", f"{ASYNC_H}.handle::inert", all(isinstance(s, ast.Pass) for s in body), f"{ASYNC_H}.handle is no longer inert: records could be decoded twice", h.loc)
    consume_pairing(ctx, repo, "R3")
    ctx.assume("record geometry (4-byte position+word records, count byte) is decided under C04")
    ctx.rule("R7", "every partial update reaches its handler: the unclaimed-datagram discard of the receive queue can only remove the datagram it marked - not a retransmitted, byte-identical STATP that follows it (C07's queue model borrowed)")
    from .c07 import queue_model
    queue_model(ctx.borrowed("R7", "C07", key_prefix="AsyncPeekableQueue::mark"), repo, "R3")
    ctx.rule("R8", "protocol-range acknowledgement numbers: the counter both stacks draw the STATQ sequence from issues exactly 1..191 for kind False, each the successor of the previous one, never 0 and never a command-range value (C16's exhaustive fixpoint on both implementations; that the acknowledgement draws kind False is R4)")
    from . import c16 as _c16
    for impl in _c16.IMPLS:
        _c16.fixpoint(ctx.borrowed("R8", "C16", only=("R1", "R2"), key_contains="::protocol-"), repo, impl, ctx.tier)
    ctx.rule("R10", "a refresh interleaved with updates installs the spa's answer to THIS attempt: nothing collected by an abandoned attempt of the transfer is spliced in (C01's assembler models on both stacks borrowed) - stale leading segments would overwrite an update applied in between with the older value")
    from .c01 import async_assembly_model as _aam, sync_assembly_model as _sam
    _aam(ctx.borrowed("R10", "C01"), repo)
    _sam(ctx.borrowed("R10", "C01"), repo)
    ctx.rule("R11", "the update reaches its handler whole: a frame built by send_bytes and handed to the packet layer's handle() gives back exactly the payload, for any payload bytes - a STATP whose last data byte is a blank or a newline is not shortened on the way (C04's symbolic frame round trip borrowed)")
    from .c04 import framing as _framing5
    _framing5(ctx.borrowed("R11", "C04", only=("R4",), key_contains="frame-round-trip::payload"), repo)
    ctx.rule("R12", "the acknowledgement leaves: the awaitable protocol's queue_send, built by its own constructor on a recording transport and a model clock, transmits every message it is handed - also several at the same instant - once, in order, to its destination (nothing queues or repeats an acknowledgement)")
    send_path_model(ctx, repo, "R12")
    ctx.rule("R14", "every update arrives whole, however many changes it carries: the receive side of both stacks hands the datagram on byte for byte - the blocking engine asks its socket for a buffer that holds the longest datagram of the protocol (a partial update with 255 changes, its count being one byte; the model socket cuts to the size asked for, as UDP does), and neither path trims the content - a cut datagram no longer ends its frame, no handler claims it, and the whole message is neither applied nor acknowledged")
    from ..enginemodel import receive_paths_verbatim as _rpv5
    _rpv5(ctx, repo, "R14")
    ctx.rule("R13", "applying never fails on a value: every change is installed by replace_status_block_segment, which decodes every watched item from the new block - the decode of an enumeration is total over all 256 raw bytes (a byte one past the label list included), else the apply loop is left in the middle of a message: the rest of its changes is dropped, the blocking handler's list is not cleared and is replayed with every later message, the awaitable consumer ends (C11.R4's enum decode borrowed)")
    from .c11 import enum_decode_total as _edt5
    _edt5(ctx.borrowed("R13", "C11"), repo, "R4")
    ctx.rule("R9", "message sequences end to end: on both stacks the long-lived partial-update handler, wired to the connection's own apply callback, is driven handle / handled per message with builder-made messages (two messages, an empty one in between, one position repeated within and across messages, a one-byte change): the structure receives every change once, in arrival order, and one acknowledgement is queued per message")
    message_sequence_model(ctx, repo, "R9")
    ctx.note("Not decided: interleaving of partial updates with refreshes; an observer raising during the sync apply loop skips the for-else clear (documented residual).")
    ctx.rule("R15", "no update is thrown away unread: on the awaitable connection every consumer polls ONE receive queue, so only the consumers (the request waiter, the long-lived consume loops, the discard consumer) and their private helpers may take datagrams off it - a request engine that empties the queue when one of its attempts times out discards the partial update that was waiting for its handler: its changes are never applied and it is never acknowledged (C07.R2's who-may-pop borrowed)")
    from .c07 import who_may_remove as _wmr5
    _wmr5(ctx.borrowed("R15", "C07"), repo, "R2")
    ctx.rule("R16", "an update is taken by ITS handler: on the awaitable connection the refresh waiter, the other request waiters and the long-lived partial-update consumer poll one queue, and only disjoint acceptance keeps whoever wakes first from mattering - a refresh handler that claims every `STAT...` verb pops an unsolicited STATP while a refresh is in flight, reads it as a segment and drops it: the change is never applied and never acknowledged (C07.R10 one taker per datagram borrowed)")
    from .c07 import one_taker_per_datagram as _otpd5
    _otpd5(ctx.borrowed("R16", "C07"), repo, "R10")
