"""C01 - status-block transfer installs the spa's bytes or nothing.

Decides the assembly discipline of both structure classes (install only on a complete,
in-order chain; untouched on failure; fresh assembly per attempt; bounded attempts) and
the arithmetic of the simulator's segment chain (residue-indexed affine domain).
NOT decided: which concrete loss/duplication/re-ordering patterns end in success.
"""
from __future__ import annotations

import ast
from fractions import Fraction

from ..cfg import cfg_of
from ..core import AnalysisError
from ..facts import block_attr, loc
from ..pathrules import assigns_attr, assigns_to, calls_named, loop_heads
from ..src import Repo, Unfoldable, call_name, names_in, receiver, walk_no_nested
from .c06 import retry_loop_rules

INSTALL = "replace_status_block_segment"


# ---------------------------------------------------------------------------
# residue-indexed affine domain:  L = q*S + r,  value(r) = a*q + b
# ---------------------------------------------------------------------------
class ResAff:
    def __init__(self, S, table):
        self.S = S
        self.t = table  # list of (a, b) Fractions indexed by r

    @staticmethod
    def const(S, c):
        return ResAff(S, [(Fraction(0), Fraction(c))] * S)

    @staticmethod
    def ident(S):
        return ResAff(S, [(Fraction(S), Fraction(r)) for r in range(S)])

    def map2(self, o, fn):
        return ResAff(self.S, [fn(x, y) for x, y in zip(self.t, o.t)])

    def add(self, o):
        return self.map2(o, lambda x, y: (x[0] + y[0], x[1] + y[1]))

    def sub(self, o):
        return self.map2(o, lambda x, y: (x[0] - y[0], x[1] - y[1]))

    def neg(self):
        return ResAff(self.S, [(-a, -b) for a, b in self.t])

    def is_const(self):
        return all(a == 0 for a, b in self.t) and len({b for a, b in self.t}) == 1

    def floordiv(self, d):
        out = []
        for a, b in self.t:
            if a % d != 0 or a.denominator != 1 or b.denominator != 1:
                raise Unsupported("floor division of a non-multiple coefficient")
            out.append((a / d, Fraction(b.numerator // d)))
        return ResAff(self.S, out)

    def truediv(self, d):
        return ResAff(self.S, [(a / d, b / d) for a, b in self.t])

    def ceil(self):
        out = []
        for a, b in self.t:
            if a.denominator != 1:
                raise Unsupported("ceil of non-integer coefficient")
            out.append((a, Fraction(-((-b.numerator) // b.denominator))))
        return ResAff(self.S, out)

    def __eq__(self, o):
        return self.t == o.t


class Unsupported(Exception):
    pass


def eval_resaff(e, S, Ltext, fold):
    """Evaluate integer expression e where the sub-expression whose text is Ltext stands
    for L = q*S + r (q >= 0 symbolic)."""
    if ast.unparse(e) == Ltext:
        return ResAff.ident(S)
    try:
        v = fold(e)
        if isinstance(v, int) and not isinstance(v, bool):
            return ResAff.const(S, v)
    except Unfoldable:
        pass
    if isinstance(e, ast.BinOp):
        l = eval_resaff(e.left, S, Ltext, fold)
        r = eval_resaff(e.right, S, Ltext, fold)
        if isinstance(e.op, ast.Add):
            return l.add(r)
        if isinstance(e.op, ast.Sub):
            return l.sub(r)
        if isinstance(e.op, ast.FloorDiv) and r.is_const():
            d = r.t[0][1]
            if d <= 0:
                raise Unsupported("division by non-positive constant")
            return l.floordiv(d)
        if isinstance(e.op, ast.Div) and r.is_const():
            return l.truediv(r.t[0][1])
        raise Unsupported(f"operator {type(e.op).__name__}")
    if isinstance(e, ast.UnaryOp) and isinstance(e.op, ast.USub):
        return eval_resaff(e.operand, S, Ltext, fold).neg()
    if isinstance(e, ast.Call):
        f = ast.unparse(e.func)
        if f in ("math.ceil", "ceil") and len(e.args) == 1:
            return eval_resaff(e.args[0], S, Ltext, fold).ceil()
        if f == "int" and len(e.args) == 1:
            v = eval_resaff(e.args[0], S, Ltext, fold)
            if all(a.denominator == 1 and b.denominator == 1 for a, b in v.t):
                return v
    raise Unsupported(ast.unparse(e))


def range_count(S):
    """len(range(A, A+L, S)) for L = q*S + r >= 0  ==  q + [r > 0]"""
    return ResAff(S, [(Fraction(1), Fraction(0 if r == 0 else 1)) for r in range(S)])


# ---------------------------------------------------------------------------
def async_assembly_model(ctx, repo, observe="block"):
    """GeckoAsyncStructure.get on a model connection (witness scenarios): the structure is built by its constructor,
    every attempt's request is a stand-in whose wait_for_response delivers a scripted list of (sequence, next, data)
    segments and then times out.  What is installed must be the spa's bytes for the requested range, or nothing."""
    from ..absint import ClassRef, Interp, Native, Obj, Opaque, PyRaise, Undecided
    fi = repo.method("GeckoAsyncStructure", "get")
    a, b, c = b"A" * 39, b"B" * 39, b"C" * 22
    a2, b2, c2 = b"a" * 39, b"b" * 39, b"c" * 22
    full = [(0, 1, a), (1, 2, b), (2, 0, c)]
    T = "timeout"
    cases = [
        ("clean", [full], 3, True, a + b + c, 1, "a complete in-order chain"),
        ("partial-then-retry", [[(0, 1, a), (1, 2, b), T], full], 3, True, a + b + c, 2, "an attempt that delivered two segments and then timed out, followed by a complete attempt"),
        ("middle-segment-lost", [[(0, 1, a), (2, 0, c)], full], 3, True, a + b + c, 2, "an attempt whose middle segment was lost (final segment out of sequence), followed by a complete attempt"),
        ("duplicate-segment", [[(0, 1, a), (0, 1, a), (1, 2, b), (2, 0, c)]], 3, True, a + b + c, 1, "a chain in which the first segment arrives twice"),
        ("first-lost-then-final", [[(1, 2, b), (2, 0, c)], full], 3, True, a + b + c, 2, "an attempt whose first segment was lost, followed by a complete attempt"),
        ("partial-then-retry-after-the-block-changed", [[(0, 1, a), (1, 2, b), T], [(0, 1, a2), (1, 2, b2), (2, 0, c2)]], 3, True, a2 + b2 + c2, 2,
         "an attempt that delivered two segments and timed out, then - the spa's block having changed meanwhile - a complete attempt with other bytes: only the second attempt's bytes may be installed"),
        ("gap-then-retry-after-the-block-changed", [[(0, 1, a), (2, 0, c)], [(0, 1, a2), (1, 2, b2), (2, 0, c2)]], 3, True, a2 + b2 + c2, 2,
         "an attempt with a gap, then a complete attempt carrying other bytes"),
        ("never-answered", [[T], [T]], 2, False, None, 2, "two attempts without any answer (budget 2)"),
        ("only-partial-ever", [[(0, 1, a), T], [(0, 1, a), (1, 2, b), T]], 2, False, None, 2, "two attempts that each time out part-way (budget 2)"),
    ]
    start = 100
    for key, script, budget, want_ok, want_data, want_sends, what in cases:
        interp = Interp(repo, max_depth=10)
        try:
            st = interp.apply(ClassRef(repo.cls("GeckoAsyncStructure")), [Native(lambda a_, k_: None), Native(lambda a_, k_: None)], {})
        except (PyRaise, Undecided) as e:
            raise AnalysisError(f"GeckoAsyncStructure(...) cannot be constructed by interpretation: {e}")
        installs, sends = [], []
        attempts = [list(x) for x in script]
        made = []

        def create(a_, k_, attempts=attempts, made=made):
            feed = attempts.pop(0) if attempts else [T]
            req = Obj(None, {"start": start, "sequence": None, "next": None, "data": None}, name=f"request{len(made)}")

            def wait(a2, k2, req=req, feed=feed):
                if not feed or feed[0] == T:
                    return False
                seq, nxt, data = feed.pop(0)
                req.attrs.update(sequence=seq, next=nxt, data=data)
                return True
            req.attrs["wait_for_response"] = Native(wait, "wait_for_response")
            made.append(req)
            return req
        proto = Obj(None, {"Lock": Obj(None, name="lock"), "queue_send": Native(lambda a_, k_: sends.append(a_[0]), "queue_send")}, name="protocol")

        try:
            before_blk = bytes(interp.getattr(st, "status_block"))
        except (PyRaise, Undecided, TypeError):
            before_blk = None
        if before_blk is None:
            observe = "calls"

        def hook(it, node, callee, args, kwargs):
            fn = getattr(node, "func", None)
            # observe="calls": what is handed to the notifying install function (C03: one update = one notification round);
            # observe="block": the block before and after (C01: the client's copy, whichever way it is stored)
            if observe == "calls" and isinstance(fn, ast.Attribute) and fn.attr == "replace_status_block_segment" and isinstance(fn.value, ast.Name) and fn.value.id == "self":
                installs.append((args[0], bytes(args[1]) if isinstance(args[1], (bytes, bytearray)) else args[1]))
                return None
            if isinstance(fn, (ast.Name, ast.Attribute)) and (getattr(fn, "id", None) == "config_sleep" or getattr(fn, "attr", None) in ("config_sleep", "sleep")):
                return None
            return NotImplemented
        interp.call_hook = hook
        try:
            interp.steps = 0
            res = interp.call(fi, st, [proto, Native(create, "create_func"), budget])
        except PyRaise as e:
            res = f"raises {e.what}"
        except Undecided as e:
            if "loop bound" in str(e) or "step budget" in str(e):
                ctx.ob("R5", f"{fi.qual}::model::{key}::terminates", False,
                       f"{fi.qual} given {what} with a budget of {budget} does not finish: {len(sends)} transmissions and still going - the number of attempts is not bounded by the retry budget", fi.loc)
                continue
            raise AnalysisError(f"{fi.qual}: cannot interpret: {e}")
        if observe == "block":
            try:
                after_blk = bytes(interp.getattr(st, "status_block"))
            except (PyRaise, Undecided, TypeError) as e:
                raise AnalysisError(f"{fi.qual}: the block after the transfer cannot be read: {e}")
            if after_blk != before_blk:
                lo = next(i for i in range(min(len(after_blk), len(before_blk))) if after_blk[i] != before_blk[i]) if len(after_blk) == len(before_blk) else 0
                hi = max(i for i in range(len(after_blk)) if i >= len(before_blk) or after_blk[i] != before_blk[i]) + 1 if len(after_blk) == len(before_blk) else len(after_blk)
                installs.append((lo, after_blk[lo:hi]) if len(after_blk) == len(before_blk) else ("length", len(after_blk)))
            want_blk = (before_blk[:start] + want_data + before_blk[start + len(want_data):]) if want_ok else before_blk
            ok_inst = after_blk == want_blk
        else:
            ok_inst = installs == ([(start, want_data)] if want_ok else [])
        ok = (res is want_ok) and len(sends) == want_sends and all(s is made[i] for i, s in enumerate(sends)) and ok_inst
        shown = [(o, (len(d), d[:1] + b".." + d[-1:]) if isinstance(d, bytes) else d) for o, d in installs]
        ctx.ob("R3", f"{fi.qual}::model::{key}", ok,
               f"{fi.qual} given {what}: returns {res!r} after {len(sends)} transmission(s) and installs {shown}; expected {want_ok} after {want_sends} transmission(s), installing "
               f"{'exactly the ' + str(len(want_data)) + ' bytes of the chain at offset ' + str(start) if want_ok else 'nothing'}",
               fi.loc, sample={"rule": "R3", "scenario": key, "result": str(res), "sends": len(sends), "installed": [str(x) for x in shown]})


def async_assembly(ctx, repo, observe="block"):
    async_assembly_model(ctx, repo, observe)
    from .c06 import operation_body as _ob1
    fi = _ob1(repo, repo.own_method("GeckoAsyncStructure", "get"))     # a wrapper without loops stands for the helper that has them
    g = cfg_of(fi)
    key = fi.qual
    heads_ = [h for h in __import__("vlib.pathrules", fromlist=["loop_heads"]).loop_heads(g)]
    appends0 = [(n, c) for n, c in calls_named(g, "append")]
    if not calls_named(g, INSTALL) or not appends0 or len(heads_) < 2:
        # the assembly was restructured (helpers that cannot be inlined, other containers): the path rules below do
        # not apply to this shape; the model scenarios above carry the verdict
        ctx.note(f"{fi.qual}: install/append/loop shape not recognised - decided on the model scenarios only")
        return
    r = retry_loop_rules(ctx, repo, fi, "R5", "protocol")
    if r is None:
        return
    _, outer, req = r
    installs = calls_named(g, INSTALL)
    ctx.floor("R1", f"{key} install sites", len(installs), 1)
    appends = [(n, c) for n, c in calls_named(g, "append") if c.args and ast.unparse(c.args[0]) == f"{req}.data"]
    if len(appends) != 1:
        ctx.note(f"{fi.qual}: accumulator not recognised - decided on the model scenarios only")
        return
    A, ac = appends[0]
    acc = receiver(ac)
    # expected-index variable: the local compared with <req>.sequence
    exp = None
    for n in g.stmt_nodes():
        if n.kind == "test" and isinstance(n.ast, ast.Compare) and len(n.ast.ops) == 1 and isinstance(n.ast.ops[0], (ast.Eq, ast.NotEq)):
            l, rr = ast.unparse(n.ast.left), ast.unparse(n.ast.comparators[0])
            if rr == f"{req}.sequence" and isinstance(n.ast.left, ast.Name):
                exp = l
            elif l == f"{req}.sequence" and isinstance(n.ast.comparators[0], ast.Name):
                exp = rr
    ctx.ob("R1", f"{key}::sequence-comparison", exp is not None,
           f"{fi.qual}: no comparison between an expected-index variable and {req}.sequence exists: segments are accepted in any order", fi.loc)
    if exp is None:
        return
    seq_fact = tuple(sorted([exp, f"{req}.sequence"]))
    seq_atom = f"{seq_fact[0]} == {seq_fact[1]}"
    final_atom = f"0 == {req}.next"

    def has(facts, atom):
        return (atom, True) in facts

    for I, ic in installs:
        facts = g.iter_guard_atoms(I)
        a = any(p and "wait_for_response(" in t for t, p in facts)
        ctx.ob("R1", f"{key}::install::delivered", a, f"{fi.qual}: block installed (L{I.lineno}) on a path where no segment was delivered this round; guards {sorted(facts)}", loc(fi, I.ast),
               sample={"rule": "R1", "install": f"{fi.qual} L{I.lineno}", "guards": sorted(t for t, p in facts if p)})
        ctx.ob("R1", f"{key}::install::in-sequence", has(facts, seq_atom),
               f"{fi.qual}: block installed (L{I.lineno}) without `{seq_atom}` holding for the segment just received: a mis-ordered or duplicated chain can be installed", loc(fi, I.ast))
        ctx.ob("R1", f"{key}::install::final-segment", has(facts, final_atom),
               f"{fi.qual}: block installed (L{I.lineno}) before the final segment (`{req}.next == 0`) arrived: a partial transfer is installed", loc(fi, I.ast))
        # R3 installer arguments
        a0 = ast.unparse(ic.args[0]) if ic.args else ""
        ctx.ob("R3", f"{key}::install::offset", a0 == f"{req}.start", f"{fi.qual}: installs at offset `{a0}`, not at the requested start `{req}.start`", loc(fi, I.ast))
        a1 = ic.args[1] if len(ic.args) > 1 else None
        okd = (isinstance(a1, ast.Call) and call_name(a1) == "join" and a1.args and ast.unparse(a1.args[0]) == acc
               and repo.try_fold(a1.func.value) == b"")
        ctx.ob("R3", f"{key}::install::data", okd, f"{fi.qual}: installed data is `{ast.unparse(a1) if a1 is not None else None}`, not the in-order concatenation of {acc}", loc(fi, I.ast))
        # the append of the final segment precedes the install in the same iteration
        ctx.ob("R1", f"{key}::install::after-append", g.dom(A, I) or A in g.reach_to(I, avoid=[g.loop_of(I)] if g.loop_of(I) else []),
               f"{fi.qual}: install not preceded by the append of the final segment", loc(fi, I.ast))
        # from install every continuation returns True
        for n in g.reach_from(I, labels_skip=("exc",)):
            if isinstance(n.ast, ast.Return):
                v = repo.try_fold(n.ast.value, default="?") if n.ast.value is not None else None
                if g.dom(I, n):
                    ctx.ob("R3", f"{key}::success-after-install", v is True, f"{fi.qual}: after installing, returns {v!r}", loc(fi, n.ast))
    # R2 append guard + expected update
    facts = g.iter_guard_atoms(A)
    ctx.ob("R2", f"{key}::append::delivered", any(p and "wait_for_response(" in t for t, p in facts), f"{fi.qual}: segment appended without a delivered response", loc(fi, A.ast))
    ctx.ob("R2", f"{key}::append::in-sequence", has(facts, seq_atom),
           f"{fi.qual}: segment appended (L{A.lineno}) without `{seq_atom}`: out-of-order segments enter the assembly", loc(fi, A.ast))
    ups = [n for n in g.stmt_nodes() if assigns_to(n, exp) and isinstance(n.ast, ast.Assign) and ast.unparse(n.ast.value) == f"{req}.next"]
    ok = len(ups) == 1 and g.dom(A, ups[0]) and g.pdom(ups[0], A) and not any(m.suspends for m in g.between(A, ups[0]))
    ctx.ob("R2", f"{key}::expected-index-advances", ok, f"{fi.qual}: `{exp}` is not set to {req}.next together with every append", loc(fi, A.ast))
    # R3 success/failure results
    block = block_attr(repo, "GeckoAsyncStructure")
    for n in g.stmt_nodes():
        if isinstance(n.ast, ast.Return):
            v = repo.try_fold(n.ast.value, default="?") if n.ast.value is not None else None
            if v is True:
                ctx.ob("R3", f"{key}::true-only-after-install", any(g.dom(I, n) for I, _ in installs),
                       f"{fi.qual}: reports success (L{n.lineno}) on a path that installed nothing", loc(fi, n.ast))
            elif v in (False, None):
                reach_inst = any(n in g.reach_from(I) for I, _ in installs)
                ctx.ob("R3", f"{key}::failure-leaves-block-untouched", not reach_inst,
                       f"{fi.qual}: reports failure (L{n.lineno}) on a path that already installed data", loc(fi, n.ast))
            else:
                ctx.ob("R3", f"{key}::boolean-result", False, f"{fi.qual}: returns {ast.unparse(n.ast)}", loc(fi, n.ast))
    writes = [n for n in g.stmt_nodes() if assigns_attr(n, f"self.{block}")]
    ctx.ob("R3", f"{key}::no-direct-block-write", not writes, f"{fi.qual} writes self.{block} directly", fi.loc)
    # R4 fresh assembly per attempt
    reinit_acc = [n for n in g.loop_body(outer) if assigns_to(n, acc) and isinstance(n.ast, ast.Assign) and isinstance(n.ast.value, ast.List) and not n.ast.value.elts]
    reinit_exp = [n for n in g.loop_body(outer) if assigns_to(n, exp) and isinstance(n.ast, ast.Assign) and repo.try_fold(n.ast.value, default=None) == 0 and not isinstance(repo.try_fold(n.ast.value, default=None), bool)]
    ctx.ob("R4", f"{key}::accumulator-reset-per-attempt", bool(reinit_acc) and A not in g.reach_from(outer, avoid=reinit_acc),
           f"{fi.qual}: `{acc}` is not re-initialised at the start of every attempt: segments of a failed attempt leak into the next one", fi.loc)
    ctx.ob("R4", f"{key}::expected-index-reset-per-attempt", bool(reinit_exp) and A not in g.reach_from(outer, avoid=reinit_exp),
           f"{fi.qual}: `{exp}` is not reset to 0 at the start of every attempt", fi.loc)
    # the failed-round exits: out-of-sequence final segment or timeout leave the inner loop
    inner = g.loop_of(A)
    ctx.ob("R5", f"{key}::inner-loop-exits", inner is not None and inner is not outer, f"{fi.qual}: segment loop missing", fi.loc)


def _resets(repo, g, path, kind):
    """nodes that re-initialise `path` (e.g. 'self._segments' or 'self._collector.segments'):
    a direct assignment of [] / 0, or an assignment of a freshly constructed record to a prefix of
    the path whose class gives the remaining field that default (dataclass field default / default_factory=list,
    or an __init__ assigning it)"""
    from ..pathrules import assigns_attr as _aa
    out = []
    for n in g.stmt_nodes():
        a = n.ast
        if not isinstance(a, (ast.Assign, ast.AnnAssign)) or getattr(a, "value", None) is None:
            continue
        if _aa(n, path):
            v = a.value
            if kind == "list" and isinstance(v, ast.List) and not v.elts:
                out.append(n)
            elif kind == "zero" and repo.try_fold(v, default=None) == 0:
                out.append(n)
            continue
        parts = path.split(".")
        for cut in range(len(parts) - 1, 1, -1):
            prefix, rest = ".".join(parts[:cut]), parts[cut:]
            if len(rest) != 1 or not _aa(n, prefix):
                continue
            v = a.value
            if isinstance(v, ast.Call) and isinstance(v.func, ast.Name) and not v.args and not v.keywords:
                c = repo.cls(v.func.id, required=False)
                if c is None:
                    continue
                d = c.consts.get(rest[0])
                if d is not None:
                    if kind == "zero" and repo.try_fold(d, default=None) == 0:
                        out.append(n)
                    if kind == "list" and ((isinstance(d, ast.List) and not d.elts) or
                                           (isinstance(d, ast.Call) and ast.unparse(d.func).endswith("field") and any(k.arg == "default_factory" and ast.unparse(k.value) == "list" for k in d.keywords))):
                        out.append(n)
    return out


def sync_assembly_model(ctx, repo):
    """The blocking structure's transfer by interpretation (witness scenarios): a GeckoStructure built by its constructor,
    retry_request given a model socket and a model request handler (sequence / next / data / start, a counted retry()),
    then segments delivered the way the engine delivers them - the structure's handled-callback once per segment.
    Observed: what is installed (offset, bytes), how many resends were asked for, whether the handler was retired."""
    from ..absint import BoundMethod, ClassRef, Interp, Native, Obj, Opaque, PyRaise, Undecided
    S = "GeckoStructure"
    cb = repo.method(S, "_on_status_block_received")
    d0, d1, d2 = bytes(range(0, 39)), bytes(range(100, 139)), bytes(range(200, 222))
    e0, e1, e2 = bytes(range(50, 89)), bytes(range(150, 189)), bytes(range(230, 252))
    chain = [(0, 1, d0), (1, 2, d1), (2, 0, d2)]
    chain2 = [(0, 1, e0), (1, 2, e1), (2, 0, e2)]
    START = 117

    def run(script, budget=3):
        """script: list of ('request', start) | ('seg', (seq, next, data)); returns (installs, resends, retired, error)"""
        it = Interp(repo, max_depth=12)
        installs, st = [], {"resends": 0, "budget": budget}

        def hook(it_, node, callee, args, kwargs):
            if isinstance(callee, BoundMethod) and callee.fi.name == INSTALL and isinstance(callee.obj, Obj) and callee.obj.cls is not None and callee.obj.cls.short == S:
                installs.append((args[0], bytes(args[1]) if isinstance(args[1], (bytes, bytearray)) else args[1]))
            return NotImplemented
        it.call_hook = hook
        sock = Obj(None, {"add_receive_handler": Native(lambda a, k: None, "add_receive_handler"), "queue_send": Native(lambda a, k: None, "queue_send")}, name="socket")
        try:
            struct_ = it.apply(ClassRef(repo.cls(S)), [Opaque("on_set_value")], {})
        except (PyRaise, Undecided) as e:
            raise AnalysisError(f"{S}(on_set_value) cannot be constructed by interpretation: {e}")
        handler = None
        err = None
        retired = []
        for op, arg in script:
            try:
                it.steps = 0
                if op == "request":
                    def retry(a, k):
                        if st["budget"] == 0:
                            return False
                        st["budget"] -= 1
                        st["resends"] += 1
                        return True
                    handler = Obj(None, {"start": arg, "length": 100, "sequence": 0, "next": 0, "data": b"", "_should_remove_handler": False, "should_remove_handler": False,
                                         "_on_handled": None, "retry": Native(retry, "retry")}, name="request")
                    it.call(repo.method(S, "retry_request"), struct_, [sock, handler, ("10.0.0.5", 10022)])
                else:
                    seq, nxt, data = arg
                    handler.attrs.update({"sequence": seq, "next": nxt, "data": data})
                    on_handled = handler.attrs.get("_on_handled")
                    if on_handled is None:
                        raise AnalysisError(f"{S}.retry_request does not register a handled-callback on the request")
                    it.apply(on_handled, [handler, ("10.0.0.5", 10022)], {})
                    if handler.attrs.get("_should_remove_handler") or handler.attrs.get("should_remove_handler"):
                        retired.append(len(installs))
            except PyRaise as e:
                err = e.what
                break
            except Undecided as e:
                raise AnalysisError(f"{cb.qual} on the model transfer: {e}")
        return installs, st["resends"], bool(retired), err
    whole, whole2 = d0 + d1 + d2, e0 + e1 + e2
    R, SEG = "request", "seg"
    cases = [
        ("clean-chain", [(R, START)] + [(SEG, c) for c in chain], ([(START, whole)], 0, True, None), "a complete in-order chain is installed once, at the requested offset, and the request is retired"),
        ("middle-segment-lost-then-clean", [(R, START), (SEG, chain[0]), (SEG, chain[2])] + [(SEG, c) for c in chain], ([(START, whole)], 1, True, None),
         "a chain with a gap installs nothing and asks for the transfer again; the repeated chain is installed alone"),
        ("first-segment-lost-then-clean", [(R, START), (SEG, chain[1]), (SEG, chain[2])] + [(SEG, c) for c in chain], ([(START, whole)], 1, True, None),
         "a chain missing its first segment installs nothing (not an empty join either) and asks again"),
        ("duplicate-segment", [(R, START), (SEG, chain[0]), (SEG, chain[0]), (SEG, chain[1]), (SEG, chain[2])], ([(START, whole)], 0, True, None), "a duplicated segment is not installed twice"),
        ("gap-then-clean-after-the-block-changed", [(R, START), (SEG, chain[0]), (SEG, chain[2])] + [(SEG, c) for c in chain2], ([(START, whole2)], 1, True, None),
         "a damaged attempt followed - the spa's block having changed meanwhile - by a clean chain with other bytes: only the second chain is installed"),
        ("second-transfer-after-a-complete-one", [(R, START)] + [(SEG, c) for c in chain] + [(R, 0)] + [(SEG, c) for c in chain2], ([(START, whole), (0, whole2)], 0, True, None),
         "a second transfer installs its own chain at its own offset - nothing of the first one is left in the assembly"),
        ("gap-then-gap-again-then-clean", [(R, START), (SEG, chain[0]), (SEG, chain[2]), (SEG, chain[1]), (SEG, chain[2])] + [(SEG, c) for c in chain], ([(START, whole)], 2, True, None),
         "two damaged attempts in a row leave nothing behind for the third"),
        ("budget-exhausted", [(R, START), (SEG, chain[0]), (SEG, chain[2]), (SEG, chain[0]), (SEG, chain[2])], ([], 1, False, "RuntimeError"), "when retry() refuses, the transfer fails loudly and nothing is installed"),
        ("abandoned-after-two-segments-then-a-new-transfer", [(R, START), (SEG, chain[0]), (SEG, chain[1]), (R, 0)] + [(SEG, c) for c in chain2], ([(0, whole2)], 0, True, None),
         "a transfer that accepted its first segments and then never heard again (its handler is retired by time-outs, the structure is not told) leaves nothing for the next transfer: that one installs its own chain alone"),
    ]
    for key, script, want, what in cases:
        budget = 1 if key == "budget-exhausted" else 3
        installs, resends, retired, err = run(script, budget)
        w_inst, w_res, w_ret, w_err = want
        ok = installs == w_inst and resends == w_res and retired == w_ret and ((err is None) == (w_err is None))      # "fails loudly": some exception - which class it is (a subclass of RuntimeError of the package's own) is not the clause
        shown = [(o, (len(d), d[:1] + b".." + d[-1:]) if isinstance(d, bytes) and d else d) for o, d in installs]
        ctx.ob("R3", f"{cb.qual}::model::{key}", ok,
               f"{cb.qual} given {key.replace('-', ' ')}: installs {shown}, {resends} resend(s), retired={retired}, error={err}; expected installs "
               f"{[(o, len(d)) for o, d in w_inst]} ({'the chain bytes' if w_inst else 'nothing'}), {w_res} resend(s), retired={w_ret}, error={w_err} - {what}",
               cb.loc, sample={"rule": "R3", "scenario": key, "installed": [str(x) for x in shown], "resends": resends})


def sync_assembly(ctx, repo):
    """the blocking structure's assembly: decided on the model transfer (sync_assembly_model).  The statement-shape rules
    that used to sit here (one append of handler.data, resets before every resend ...) alarmed on equivalent rewrites
    (state grouped into a transfer object with a restart() method) and were retired in favour of the model."""
    sync_assembly_model(ctx, repo)
    from ..handlermodel import retry_obligations
    retry_obligations(ctx, repo, "R5")
    ctx.floor("R1", "GeckoStructure._on_status_block_received install sites", 1, 1)


def _sync_assembly_shape(ctx, repo):
    fi = repo.method("GeckoStructure", "_on_status_block_received")
    g = cfg_of(fi)
    key = fi.qual
    h = fi.node.args.args[1].arg  # the handler parameter
    installs = calls_named(g, INSTALL)
    ctx.floor("R1", f"{key} install sites", len(installs), 1)
    appends = [(n, c) for n, c in calls_named(g, "append") if c.args and ast.unparse(c.args[0]) == f"{h}.data"]
    ctx.ob("R2", f"{key}::accumulator", len(appends) == 1, f"{fi.qual}: expected one accumulator appended with {h}.data", fi.loc)
    if len(appends) != 1:
        return
    A, ac = appends[0]
    acc = ast.unparse(g.expand(ac.func.value, at=A))  # accumulator, local aliases of the holder expanded
    exp = None
    for n in g.stmt_nodes():
        if n.kind == "test":
            for sub in ast.walk(g.expand(n.ast, at=n)):
                if isinstance(sub, ast.Compare) and len(sub.ops) == 1 and isinstance(sub.ops[0], (ast.Eq, ast.NotEq)):
                    l, rr = ast.unparse(sub.left), ast.unparse(sub.comparators[0])
                    if rr == f"{h}.sequence" and l.startswith("self."):
                        exp = l
                    elif l == f"{h}.sequence" and rr.startswith("self."):
                        exp = rr
    ctx.ob("R1", f"{key}::sequence-comparison", exp is not None, f"{fi.qual}: no comparison of an expected index with {h}.sequence", fi.loc)
    if exp is None:
        return
    s = sorted([exp, f"{h}.sequence"])
    seq_atom = f"{s[0]} == {s[1]}"
    final_atom = f"0 == {h}.next"
    for I, ic in installs:
        facts = g.guard_atoms(I)
        ctx.ob("R1", f"{key}::install::in-sequence", (seq_atom, True) in facts,
               f"{fi.qual}: block installed (L{I.lineno}) without `{seq_atom}`; guards {sorted(facts)}", loc(fi, I.ast),
               sample={"rule": "R1", "install": f"{fi.qual} L{I.lineno}", "guards": sorted(t for t, p in facts if p)})
        ctx.ob("R1", f"{key}::install::final-segment", (final_atom, True) in facts,
               f"{fi.qual}: block installed (L{I.lineno}) before the final segment", loc(fi, I.ast))
        a0 = ast.unparse(ic.args[0]) if ic.args else ""
        # offset attribute must be the one retry_request sets from request.start
        rr = repo.method("GeckoStructure", "retry_request")
        req_param = rr.node.args.args[2].arg
        sets = [n for n in ast.walk(rr.node) if isinstance(n, ast.Assign) and ast.unparse(n.targets[0]) == a0 and ast.unparse(n.value) == f"{req_param}.start"]
        ctx.ob("R3", f"{key}::install::offset", bool(sets), f"{fi.qual}: installs at `{a0}`, which retry_request does not set from {req_param}.start", loc(fi, I.ast))
        a1 = ic.args[1] if len(ic.args) > 1 else None
        okd = isinstance(a1, ast.Call) and call_name(a1) == "join" and a1.args and ast.unparse(g.expand(a1.args[0], at=I)) == acc and repo.try_fold(a1.func.value) == b""
        ctx.ob("R3", f"{key}::install::data", okd, f"{fi.qual}: installed data is not the concatenation of {acc}", loc(fi, I.ast))
        ctx.ob("R1", f"{key}::install::after-append", g.dom(A, I), f"{fi.qual}: install not preceded by the append", loc(fi, I.ast))
        rm = [n for n in g.stmt_nodes() if isinstance(n.ast, ast.Assign) and ast.unparse(n.ast.targets[0]) == f"{h}._should_remove_handler" and repo.try_fold(n.ast.value) is True]
        ctx.ob("R5", f"{key}::handler-removed-on-completion", any(g.dom(I, n) for n in rm), f"{fi.qual}: request handler not removed after completion (would keep retrying)", loc(fi, I.ast))
    facts = g.guard_atoms(A)
    ctx.ob("R2", f"{key}::append::in-sequence", (seq_atom, True) in facts, f"{fi.qual}: segment appended without `{seq_atom}`", loc(fi, A.ast))
    ups = [n for n in g.stmt_nodes() if assigns_attr(n, exp) and isinstance(n.ast, ast.Assign) and ast.unparse(n.ast.value) == f"{h}.next"]
    ok = len(ups) == 1 and g.dom(A, ups[0]) and g.pdom(ups[0], A)
    ctx.ob("R2", f"{key}::expected-index-advances", ok, f"{fi.qual}: `{exp}` not advanced to {h}.next with every append", loc(fi, A.ast))
    # R4: every resend is preceded by a reset of accumulator and expected index
    retries = calls_named(g, "retry")
    ctx.floor("R4", f"{key} resend sites", len(retries), 1)
    for R, rc in retries:
        ra = _resets(repo, g, acc, "list")
        re_ = _resets(repo, g, exp, "zero")
        ctx.ob("R4", f"{key}::resend::accumulator-reset", any(g.dom(n, R) for n in ra), f"{fi.qual}: resend (L{R.lineno}) without clearing {acc}", loc(fi, R.ast))
        ctx.ob("R4", f"{key}::resend::expected-index-reset", any(g.dom(n, R) for n in re_), f"{fi.qual}: resend (L{R.lineno}) without resetting {exp}", loc(fi, R.ast))
        facts = g.guard_atoms(R)
        ctx.ob("R4", f"{key}::resend::only-after-chain-end", (final_atom, True) in facts and (seq_atom, False) in facts,
               f"{fi.qual}: resend not restricted to an out-of-sequence final segment; guards {sorted(facts)}", loc(fi, R.ast))
        # R5: a refused retry raises
        t = [n for n in g.stmt_nodes() if n.kind == "test" and rc in list(n.walk())]
        ok = False
        for tn in t:
            for m, label in g.succ[tn]:
                neg = isinstance(tn.ast, ast.UnaryOp) and isinstance(tn.ast.op, ast.Not)
                want = "T" if neg else "F"
                if label == want and isinstance(m.ast, ast.Raise):
                    ok = True
        ctx.ob("R5", f"{key}::refused-retry-raises", ok, f"{fi.qual}: an exhausted retry budget is not reported (retry() returning False must raise)", loc(fi, R.ast))
    # retry_request
    rr = repo.method("GeckoStructure", "retry_request")
    gr = cfg_of(rr)
    sends = calls_named(gr, "queue_send")
    ctx.floor("R4", f"{rr.qual} send sites", len(sends), 1)
    for S, sc in sends:
        ra = _resets(repo, gr, acc, "list")
        re_ = _resets(repo, gr, exp, "zero")
        ctx.ob("R4", f"{rr.qual}::send::accumulator-reset", any(gr.dom(n, S) for n in ra), f"{rr.qual}: request sent without clearing {acc}", loc(rr, S.ast))
        ctx.ob("R4", f"{rr.qual}::send::expected-index-reset", any(gr.dom(n, S) for n in re_), f"{rr.qual}: request sent without resetting {exp}", loc(rr, S.ast))
        reg = calls_named(gr, "add_receive_handler")
        ctx.ob("R4", f"{rr.qual}::handler-registered", any(gr.dom(n, S) for n, c in reg), f"{rr.qual}: request not registered as receive handler before sending", loc(rr, S.ast))
        cb = [n for n in gr.stmt_nodes() if isinstance(n.ast, ast.Assign) and ast.unparse(n.ast.targets[0]).endswith("._on_handled") and ast.unparse(n.ast.value) == f"self.{fi.name}"]
        ctx.ob("R4", f"{rr.qual}::callback-wired", any(gr.dom(n, S) for n in cb), f"{rr.qual}: segment callback not wired to {fi.name}", loc(rr, S.ast))
    # counted retry(): by interpretation (vlib/handlermodel.py)
    from ..handlermodel import retry_obligations
    retry_obligations(ctx, repo, "R5")


def simulator_chain_concrete(ctx, repo, fi):
    """R6, concrete half: the simulator's answer to STATU(start, length) is interpreted for every length 1..160
    (all residues modulo the segment size, up to four full segments) plus the full block, from several starts:
    indices count up from 0, `next` is index+1 except 0 on the last segment, and the concatenated payload begins
    with exactly the requested bytes of the block."""
    from ..absint import BoundMethod, Interp, Native, Obj, Opaque, PyRaise, Undecided
    block = bytes((i * 7 + 3) % 251 for i in range(1024))
    bad = None
    n_cases = 0
    interp = Interp(repo, max_depth=8)
    sent = []

    def hook(it, node, callee, args, kwargs):
        if isinstance(callee, BoundMethod) and callee.fi.qual == "GeckoStatusBlockProtocolHandler.response":
            return ("segment", args[0], args[1], args[2])
        return NotImplemented
    interp.call_hook = hook
    from ..facademodel import init_defaults
    attrs = init_defaults(repo, "GeckoSimulator")
    attrs.update({"structure": Obj(None, {"status_block": block}), "_socket": Obj(None, {"queue_send": Native(lambda a, k: sent.append(a[0]))})})
    me = Obj(repo.cls("GeckoSimulator"), attrs)
    interp.attr_hook = lambda _i, b_, a_: (Native(lambda a, k: False) if (b_ is me and a_ == "_should_ignore") else NotImplemented)
    lengths = list(range(1, 1025))
    for start in (0, 5, 256, 612):
        for L in lengths:
            if start + L > 1024:
                continue
            sent.clear()
            h = Obj(None, {"start": start, "length": L, "sequence": 1})
            try:
                interp.steps = 0
                interp.call(fi, me, [h, ("1.1.1.1", 1)])
            except PyRaise as e:
                bad = bad or (start, L, f"raises {e.what}")
                continue
            except Undecided as e:
                raise AnalysisError(f"{fi.qual}: cannot interpret: {e}")
            n_cases += 1
            segs = [s_ for s_ in sent if isinstance(s_, tuple) and s_ and s_[0] == "segment"]
            idx = [s_[1] for s_ in segs]
            nxt = [s_[2] for s_ in segs]
            data = b"".join(s_[3] for s_ in segs if isinstance(s_[3], (bytes, bytearray)))
            okc = bool(segs) and idx == list(range(len(segs))) and nxt == list(range(1, len(segs))) + [0] and data[:L] == block[start:start + L]
            if not okc and bad is None:
                bad = (start, L, f"indices {idx[:6]}.., next {nxt[:6]}.., {len(data)} payload bytes, first mismatch at {next((i for i in range(min(L, len(data))) if data[i] != block[start + i]), min(L, len(data)))}")
    # the simulator's own unreliability: a dropped segment leaves a GAP - the survivors keep their index, their `next` and
    # their bytes (a client detects the gap and asks again); renumbering them makes a shortened block look complete
    calls = {"n": 0}
    drop_at = {3, 5}     # the 3rd and 5th ask (the first ask is for the request as a whole): segments 1 and 3 are dropped
    interp.attr_hook = lambda _i, b_, a_: (Native(lambda a, k: (calls.__setitem__("n", calls["n"] + 1), calls["n"] in drop_at)[1]) if (b_ is me and a_ == "_should_ignore") else NotImplemented)
    sent.clear()
    start_l, L_l = 5, 200
    lossy = None
    try:
        interp.steps = 0
        interp.call(fi, me, [Obj(None, {"start": start_l, "length": L_l, "sequence": 1}), ("1.1.1.1", 1)])
        segs = [s_ for s_ in sent if isinstance(s_, tuple) and s_ and s_[0] == "segment"]
        nseg = -(-L_l // 39)
        full = [(i, (i + 1) % nseg, block[start_l + 39 * i: start_l + 39 * i + 39]) for i in range(nseg)]
        want_l = [f for f in full if f[0] not in (1, 3)]
        got_l = [(s_[1], s_[2], bytes(s_[3][:39]) if isinstance(s_[3], (bytes, bytearray)) else s_[3]) for s_ in segs]
        # the last segment may carry more than the requested tail (clipped by the client): compare the requested part
        ok_l = len(got_l) == len(want_l) and all(g_[0] == w_[0] and g_[1] == w_[1] and g_[2][:len(w_[2])][: max(0, start_l + L_l - (start_l + 39 * w_[0]))] == w_[2][: max(0, L_l - 39 * w_[0])] for g_, w_ in zip(got_l, want_l))
        if not ok_l:
            lossy = f"indices {[g_[0] for g_ in got_l]}, next {[g_[1] for g_ in got_l]} ({calls['n']} drop decisions asked)"
    except PyRaise as e:
        lossy = f"raises {e.what}"
    except Undecided as e:
        raise AnalysisError(f"{fi.qual} with an unreliable simulator: {e}")
    ctx.ob("R6", f"{fi.qual}::dropped-segments-leave-a-gap", lossy is None,
           f"{fi.qual}: STATU(start={start_l}, length={L_l}) with segments 1 and 3 dropped by the simulator's own unreliability is answered with {lossy}; expected the surviving segments 0, 2, 4, 5 "
           f"with their own index, next and bytes - renumbered survivors look like a complete, shorter block and the client installs it without asking again", fi.loc)
    ctx.ob("R6", f"{fi.qual}::chain-delivers-the-requested-bytes", bad is None,
           f"{fi.qual}: STATU(start={bad[0] if bad else ''}, length={bad[1] if bad else ''}) is answered with {bad[2] if bad else ''}: a client on a fault-free network cannot assemble the requested range", fi.loc,
           sample={"rule": "R6", "cases": n_cases})
    ctx.floor("R6", "simulator (start, length) cases interpreted", n_cases, 2500)


def simulator_chain(ctx, repo):
    fi = repo.method("GeckoSimulator", "_on_status_block")
    g = cfg_of(fi)
    key = fi.qual
    loops = [n for n in g.stmt_nodes() if n.kind == "for"]
    if len(loops) != 1:
        # the segments are produced some other way (a generator, a helper): every length from four starts is still
        # interpreted below; only the symbolic for-every-start argument is not available
        simulator_chain_concrete(ctx, repo, fi)
        ctx.note(f"{fi.qual}: no single segment loop in the function itself - R6 is decided by the concrete interpretation (every length 1..1024 from starts 0, 5, 256, 612) only")
        return
    lp = loops[0].ast
    it = g.expand(lp.iter, at=loops[0], consts=fi.mod.consts)  # `starts = range(..)` ... `enumerate(starts)`
    ok = isinstance(it, ast.Call) and call_name(it) == "enumerate" and it.args and isinstance(it.args[0], ast.Call) and call_name(it.args[0]) == "range" and len(it.args[0].args) == 3
    simulator_chain_concrete(ctx, repo, fi)
    if not ok:
        ctx.note(f"{fi.qual}: segment loop `{ast.unparse(lp.iter)}` is not `for idx, start in enumerate(range(A, A+L, S))` - the symbolic for-every-start argument (residue-affine domain) does not apply; "
                 f"R6 is decided by the concrete interpretation (every length 1..1024 from starts 0, 5, 256, 612) only")
        return
    A, stop, step = it.args[0].args
    _sim = repo.cls("GeckoSimulator")   # class constants live on the simulator, wherever the method body is kept
    def fold(e):
        try:
            return repo.fold(e, fi.mod, fi.cls)
        except Unfoldable:
            return repo.fold(e, _sim.mod, _sim)
    try:
        S = fold(step)
    except Unfoldable:
        raise AnalysisError(f"{fi.qual}: segment size is not a constant")
    ctx.count("simulator_segment_size", S)
    okstop = isinstance(stop, ast.BinOp) and isinstance(stop.op, ast.Add) and ast.unparse(stop.left) == ast.unparse(A)
    ctx.ob("R6", f"{key}::range-stop", okstop, f"{fi.qual}: range stop is not A + L", loc(fi, lp))
    if not okstop:
        return
    Ltext = ast.unparse(stop.right)
    idx, start = [ast.unparse(e) for e in lp.target.elts]
    # next = (idx + 1) % M
    nxt = None
    for n in walk_no_nested(lp):
        if isinstance(n, ast.Assign) and isinstance(n.value, ast.BinOp) and isinstance(n.value.op, ast.Mod):
            if ast.unparse(n.value.left).replace(" ", "") in (f"{idx}+1", f"({idx}+1)", f"1+{idx}"):
                nxt = n
    ctx.ob("R6", f"{key}::next-formula", nxt is not None, f"{fi.qual}: `next` is not computed as (idx + 1) % M", loc(fi, lp))
    if nxt is None:
        return
    M = nxt.value.right
    nn = g.nodes_for(nxt)
    M = g.expand(M, at=nn[0] if nn else None, consts=fi.mod.consts)  # `segment_count = ...` style aliases
    try:
        m = eval_resaff(M, S, Ltext, fold)
    except Unsupported as e:
        raise AnalysisError(f"{fi.qual}: modulus `{ast.unparse(M)}` outside the residue-affine fragment: {e}")
    cnt = range_count(S)
    bad = [r for r in range(S) if m.t[r] != cnt.t[r]]
    wit = None
    if bad:
        r0 = bad[0]
        q0 = 1 if r0 == 0 else 0
        Lw = q0 * S + r0
        a, b = m.t[r0]
        wit = {"L": Lw, "modulus": str(a * q0 + b), "segments": q0 + (1 if r0 else 0)}
    ctx.ob("R6", f"{key}::modulus-equals-segment-count", not bad,
           f"{fi.qual}: modulus `{ast.unparse(M)}` differs from the number of segments of range(A, A+L, {S}) for L = q*{S}+r with r in {bad[:5]}; "
           f"e.g. L={wit['L'] if wit else ''}: {wit['segments'] if wit else ''} segment(s) but modulus {wit['modulus'] if wit else ''}, so the last segment never carries next=0 and the client can never complete the transfer",
           loc(fi, nxt), detail=wit,
           sample={"rule": "R6", "S": S, "L": Ltext, "modulus": ast.unparse(M), "residues_checked": S, "mismatching_residues": bad[:8]})
    # header / payload slice / segment length of every segment are decided by simulator_chain_concrete (all 1024 lengths
    # from four starts: indices, next, and payload bytes), not by the shape of the statements


def check(ctx):
    repo = Repo()
    ctx.rule("R1", "install guard: every install of an assembled range is guarded, in the same iteration/callback, by (a) a delivered response, (b) expected index == segment index, (c) next == 0")
    ctx.rule("R2", "append guard: a segment enters the accumulator only under (a) and (b), and the expected index advances to the segment's `next` with it")
    ctx.rule("R3", "untouched on failure: no path to a failure result passes an install; success only after install; installer gets (request start, in-order concatenation)")
    ctx.rule("R4", "fresh assembly per attempt: every (re)send is preceded by re-initialising accumulator and expected index")
    ctx.rule("R5", "bounded attempts: async retry loop has a strict variant with one fresh send per attempt; sync resends go through the counted retry() whose refusal raises")
    ctx.rule("R6", "simulator chain: modulus of `next` equals the number of segments for every length (residue-indexed affine domain, all residues mod the segment size), header/payload slices per segment")
    ctx.rule("R7", "the segment payload reaches the assembler whole: the packet framing that every STATV passes through is DOTALL, its DATAS group is the last and greedy, earlier groups cannot overrun - a payload may contain any byte string, </DATAS> included (C04's framing-regex rule borrowed)")
    from .c04 import framing as _framing
    _framing(ctx.borrowed("R7", "C04", only=("R5",)), repo)
    _framing(ctx.borrowed("R7", "C04", only=("R4",), key_contains="frame-round-trip::payload"), repo)
    ctx.rule("R8", "request and segment codec: the STATU request the client builds is decoded by the peer to the same sequence number, start and length for EVERY value of those fields, and a STATV segment to the same index / next / payload (C04's symbolic round trip of the status-block messages borrowed) - a request the simulator cannot decode produces no chain at all")
    from .c04 import round_trips as _round_trips
    _round_trips(ctx.borrowed("R8", "C04", only=("R2",), key_prefix="GeckoStatusBlockProtocolHandler"), repo)
    ctx.rule("R9", "nothing of an earlier transfer is left for the next one: STATV carries no request identifier, so a segment still in the receive queue when a later transfer starts is read as ITS reply - the discard consumer, interpreted on a real peekable queue, removes a datagram nobody claimed after one mark-and-wait pass and survives doing so (C07.R7's discard-consumer model borrowed)")
    from .c07 import discard_consumer_model as _dcm
    _dcm(ctx.borrowed("R9", "C07"), repo, "R7")
    ctx.rule("R10", "at most the CONFIGURED number of requests: the status-block request builders and the structures read the retry budget and the timeout when a request is made, not in a parameter default (evaluated once, at import) (C06.R9's rule on the transfer's own modules)")
    from .c17 import config_read_at_definition as _crad1
    _crad1(ctx, repo, "R10", only_mods=("/driver/protocol/statusblock.py", "/driver/spastruct.py", "/driver/async_spastruct.py"))
    ctx.rule("R11", "the install is an exact splice: on both structure classes, built by their constructors, replace_status_block_segment leaves a block of the same length whose bytes are the new ones inside the installed range and the old ones outside - for ranges at the start, in the middle, at the VERY END and of the whole block (C03.R1's interpreted scenarios borrowed)")
    from .c03 import swap_then_notify as _stn1
    for _c in ("GeckoStructure", "GeckoAsyncStructure"):
        _stn1(ctx.borrowed("R11", "C03", key_contains="::splice::"), repo, _c)
    ctx.rule("R12", "segments arrive as sent: on both stacks the receive side hands a datagram on byte for byte (model socket / datagram_received callback, probed with content that begins and ends in whitespace and NUL bytes) - the awaitable client re-injects unwrapped BINARY content through the same callback, so a clean-up that is harmless for `<PACKT>` frames shortens a block segment ending in 0x20 / 0x0a and every later byte of the transfer lands at a lower offset, reported as success")
    from ..enginemodel import receive_paths_verbatim
    receive_paths_verbatim(ctx, repo, "R12", skip=("longest-update",))   # block segments are short: the buffer size is C05's clause
    ctx.rule("R13", "a transfer that was abandoned does not block the next: the request lock held across a transfer is released on EVERY exit of the locked section - its __aexit__ awaits the asyncio lock's on every path, the exception path (a task cancelled while it waits for the rest of the chain) included; a lock left held makes every later transfer on the connection wait for ever: it neither succeeds nor fails (C06.R2's lock rule borrowed)")
    from .c06 import request_lock_delegates as _rld1
    _rld1(ctx.borrowed("R13", "C06"), repo, "R2")
    ctx.rule("R14", "a block segment is taken by the transfer and by nobody else: the standing consumers of the connection poll the same queue as the transfer's waiter, so none of them may claim a datagram that merely CONTAINS its verb - block bytes are arbitrary, and a segment whose 39 bytes happen to hold `WCERR` would be popped by the water-care error consumer: that segment is missing from every attempt and the transfer fails on a fault-free network (C07.R8's acceptance probes borrowed)")
    from .c07 import acceptance_by_complete_verb as _abcv1
    _abcv1(ctx.borrowed("R14", "C07"), repo, "R8")
    async_assembly(ctx, repo)
    # the completed assembler keeps its segment list until the engine's clean-up removes the handler: the engine must
    # not dispatch a second datagram before that (engine model, vlib/enginemodel.py)
    from ..enginemodel import engine_obligations
    engine_obligations(ctx.borrowed("R4", "C20", key_prefix="GeckoUdpSocket._process_received_data"), repo, "R1", "R2", "R3", "R4")
    sync_assembly(ctx, repo)
    simulator_chain(ctx, repo)
    # both install functions: swap then notify is C03; here: who may install
    callers = []
    for fi in repo.all_functions():
        for n in walk_no_nested(fi.node):
            if isinstance(n, ast.Call) and call_name(n) == INSTALL:
                callers.append(fi.qual)
    allowed = {"GeckoAsyncStructure.get", "GeckoStructure._on_status_block_received", "GeckoAsyncSpa._async_on_partial_status_update",
               "GeckoSpa._on_partial_status_update", "GeckoSimulator.set_snapshot", "GeckoSimulator._on_set_value"}
    # the same operations wherever the class hierarchy keeps their bodies (a mixin / hoisted base of the named class)
    for q_ in sorted(allowed):
        m_ = repo.method(*q_.split("."), required=False)
        if m_ is not None:
            allowed.add(m_.qual)
    # ... and a helper that only those operations call (an operation split into a wrapper and its body) installs on
    # their behalf: every caller of it, up the call graph, is one of the allowed operations
    from ..callgraph import callgraph as _cg3
    cg3 = _cg3(repo)
    called_by = {}
    for f_ in repo.all_functions():
        for c_ in cg3.callees(f_):
            called_by.setdefault(c_.qual, set()).add(f_.qual)

    def _on_behalf(q, depth=3):
        if q in allowed:
            return True
        cb = called_by.get(q, set()) - {q}
        return depth > 0 and bool(cb) and all(_on_behalf(x, depth - 1) for x in cb)
    extra = sorted(q for q in set(callers) if not _on_behalf(q))
    ctx.ob("R3", "who-may-install", not extra, f"status block also installed from {extra}")
    ctx.assume("STATU/STATV encode/decode layout agreement is decided under C04")
    ctx.note("Not decided: success under concrete loss/duplication/re-order/delay patterns; delayed segments of an earlier transfer accepted by a later one; the sync stack's timeout-driven resend (GeckoUdpProtocolHandler.loop) does not reset the assembly and self-heals through the out-of-sequence path (documented residual).")
