"""C09 - self-healing: three STRUCTURAL necessary conditions only.

R1 the reconnect driver cannot be killed by an exception; R2 the recovery chain exists
link by link; R3 loss is reported.  Everything temporal in the property ("within a
bounded time", "after any fault script", "values mirror the spa") is NOT decided - no
static argument in reach bounds it; see DESIGN.md section 6.
"""
from __future__ import annotations

import ast

from ..callgraph import callgraph
from ..cfg import cfg_of
from ..core import AnalysisError
from ..facts import loc
from ..fsm import MAN, all_raise_sites, rows_of, state_guards
from ..pathrules import calls_named, loop_heads
from ..src import Repo, call_name, has_await, receiver, walk_no_nested


def catches_exception(h):
    if h.type is None:
        return True
    t = ast.unparse(h.type)
    return any(x in t for x in ("Exception", "BaseException")) and "CancelledError" not in t.replace("Exception", "")


def handler_reraises(h):
    return any(isinstance(n, ast.Raise) for s in h.body for n in ast.walk(s))


def contained(fi, node):
    """Is AST node inside a try of fi whose some handler catches Exception and does not
    re-raise?"""
    for t in walk_no_nested(fi.node):
        if isinstance(t, ast.Try) and any(node in list(ast.walk(s)) for s in t.body):
            for h in t.handlers:
                tn = ast.unparse(h.type) if h.type is not None else ""
                if (h.type is None or "Exception" in tn.replace("CancelledError", "")) and "CancelledError" != tn.split(".")[-1]:
                    if not handler_reraises(h):
                        return True
    return False


def whole_body_contained(fi):
    body = [s for s in fi.node.body if not (isinstance(s, ast.Expr) and isinstance(s.value, ast.Constant))]
    return len(body) == 1 and isinstance(body[0], ast.Try) and any(
        (h.type is None or "Exception" in ast.unparse(h.type)) and not handler_reraises(h) for h in body[0].handlers)


def endpoint_survives_errors(ctx, repo, rule):
    from ..absint import ClassRef, Interp, Native, Obj, Opaque, PyRaise, Undecided
    from ..core import AnalysisError
    P = "GeckoAsyncUdpProtocol"

    def build():
        it = Interp(repo, max_depth=8)
        state = {"resolved": False}
        fut = Obj(None, {"done": Native(lambda a, k: state["resolved"], "done"),
                         "set_result": Native(lambda a, k: state.__setitem__("resolved", True), "set_result"),
                         "cancelled": Native(lambda a, k: False, "cancelled")}, name="future")
        tr = Obj(None, {"sendto": Native(lambda a, k: None, "sendto"), "close": Native(lambda a, k: None, "close"),
                        "is_closing": Native(lambda a, k: False, "is_closing")}, name="transport")
        try:
            o = it.apply(ClassRef(repo.cls(P)), [fut, ("10.0.0.1", 10022)], {})
            it.call(repo.method(P, "connection_made"), o, [tr])
            if it.getattr(o, "isopen") is not True:
                raise AnalysisError(f"{P}: not open after connection_made on the model transport")
        except (PyRaise, Undecided) as e:
            raise AnalysisError(f"{P}(future, destination) / connection_made cannot be interpreted: {e}")
        return it, o, state

    er = repo.method(P, "error_received")
    it, o, state = build()
    raised = None
    try:
        it.call(er, o, [Opaque("OSError(ENETUNREACH)")])
        is_open = it.getattr(o, "isopen")
    except PyRaise as e:
        raised, is_open = e.what, None
    except Undecided as e:
        raise AnalysisError(f"{er.qual}: {e}")
    ctx.ob(rule, f"{er.qual}::does-not-raise", raised is None, f"{er.qual} raises {raised} into the event loop's error callback", er.loc)
    if raised is None:
        ctx.ob(rule, f"{er.qual}::endpoint-stays-open", is_open is True and not state["resolved"],
               f"after {er.qual}(exc) the endpoint reads isopen={is_open!r}, connection-lost future resolved={state['resolved']}: one OS-reported send error (ICMP unreachable while the spa is away) closes the "
               f"connection for good - the ping loop leaves its `while isopen` without raising any event, so the loss is never reported and nothing reconnects",
               er.loc, sample={"rule": rule, "after": "error_received", "isopen": str(is_open), "future_resolved": state["resolved"]})
    it, o, state = build()
    try:
        it.call(repo.method(P, "disconnect"), o, [])
        closed = it.getattr(o, "isopen") is False and state["resolved"]
    except (PyRaise, Undecided) as e:
        raise AnalysisError(f"{P}.disconnect: {e}")
    ctx.ob(rule, f"{P}.disconnect::closes-and-resolves", closed, f"{P}.disconnect() leaves the endpoint open or the connection-lost future unresolved (model control)", repo.method(P, "disconnect").loc)


def driver_tasks(repo):
    """[(method, task key)] of the coroutines the manager starts on entering its context"""
    aenter = repo.method(MAN, "__aenter__")
    drivers = []
    from ..facts import started_tasks
    for a, _nm, key, _n in started_tasks(repo, aenter):
        if isinstance(a, ast.Call):
            m = repo.method(MAN, call_name(a), required=False)
            if m is not None:
                drivers.append((m, key))
    return drivers


def check(ctx):
    repo = Repo()
    cg = callgraph(repo)
    ctx.rule("R1", "the reconnect driver (the coroutine started under the manager's own task key, an unconditional loop calling locate/connect) cannot be killed by an exception: every awaited call in the loop is contained by `except Exception` without re-raise (in the loop or as the callee's whole body); CancelledError still propagates")
    ctx.rule("R2", "recovery chain, link by link: (a) every ERROR_* state the switch can assign is left by the ping-received reset row or is a pump trigger; (b) reset lands in the pump's first trigger (IDLE, no descriptors); (c) LOCATING_FINISHED produces the second trigger; (d) connect leads to the single CONNECTED site")
    ctx.rule("R3", "loss is reported: the ping loop raises RUNNING_PING_NO_RESPONSE on the missed-ping path once the not-responding timeout has passed; that row moves CONNECTED to an error state; the ping loop is started by _connect")

    # ---- locate the driver by role -------------------------------------------------
    aenter = repo.method(MAN, "__aenter__")
    drivers = driver_tasks(repo)
    ctx.ob("R1", "driver::started-on-enter", len(drivers) == 1, f"expected one driver task started in {MAN}.__aenter__, found {[d[0].qual for d in drivers]}", aenter.loc)
    if len(drivers) != 1:
        return
    pump, key = drivers[0]
    g = cfg_of(pump)
    heads = [h for h in loop_heads(g) if h.kind == "test" and h.const_true]
    ctx.ob("R1", "driver::unconditional-loop", len(heads) == 1, f"{pump.qual} is not a single `while True` loop", pump.loc)
    aexit = repo.method(MAN, "__aexit__")
    ok = any(isinstance(n, ast.Call) and call_name(n) == "cancel_key_tasks" and n.args and repo.try_fold(n.args[0], aexit.mod, aexit.cls) == key for n in ast.walk(aexit.node))
    ctx.ob("R1", "driver::cancelled-only-on-exit", ok, f"{MAN}.__aexit__ does not cancel the driver's key {key!r}", aexit.loc)
    others = [f.qual for f in repo.all_functions() if f.qual != aexit.qual and any(
        isinstance(n, ast.Call) and call_name(n) == "cancel_key_tasks" and n.args and repo.try_fold(n.args[0], f.mod, f.cls) == key for n in ast.walk(f.node))]
    ctx.ob("R1", "driver::not-cancelled-elsewhere", not others, f"the driver's tasks are also cancelled in {others} (e.g. by reset): reconnection would stop", pump.loc)
    # no OTHER domain's cancel can hit the driver task (registry interpreted, vlib/taskmodel.py)
    from ..taskmodel import check_registry
    if isinstance(key, str):
        check_registry(ctx, repo, "R1", pump_key=key, only=("isolation",))
    awaited = []
    if heads:
        body = g.loop_body(heads[0])
        for n in body:
            if n.suspends:
                for c in n.calls():
                    if receiver(c) == "self":
                        awaited.append((n, c))
    ctx.floor("R1", "awaited manager calls in the driver loop", len(awaited), 2)
    for n, c in awaited:
        nm = call_name(c)
        ok = contained(pump, c)
        if not ok:
            callee = repo.method(MAN, nm, required=False)
            ok = callee is not None and whole_body_contained(callee)
        ctx.ob("R1", f"{pump.qual}::await-{nm}::contained", ok,
               f"{pump.qual}: an exception raised by `await self.{nm}(...)` (L{n.lineno}) is neither caught in the loop nor inside {nm}: it terminates the driver task for good and nothing ever reconnects "
               f"(e.g. GeckoAsyncSpa._connect dereferences self._protocol, which a concurrent reset sets to None)",
               loc(pump, n.ast), sample={"rule": "R1", "driver": pump.qual, "await": nm, "contained": ok})
    # cancellation still propagates
    for t in walk_no_nested(pump.node):
        if isinstance(t, ast.Try):
            for h in t.handlers:
                tn = ast.unparse(h.type) if h.type is not None else "bare"
                if h.type is None or "BaseException" in tn or "CancelledError" in tn:
                    ctx.ob("R1", f"{pump.qual}::except-{tn}::propagates-cancel", handler_reraises(h),
                           f"{pump.qual}: handler `except {tn}` swallows cancellation (the driver could not be stopped on exit)", loc(pump, h))

    # ---- R2 chain ------------------------------------------------------------------
    he = repo.method(MAN, "_handle_event")
    gh, rows = rows_of(he)
    state_rows = [r for r in rows if r.kind == "state"]
    err_states = sorted({r.value for r in state_rows if isinstance(r.value, str) and r.value.startswith("ERROR_")})
    ctx.floor("R2", "error states assigned by the switch", len(err_states), 3)
    reset_rows = [r for r in rows if r.kind == "call" and r.value == "async_reset"]
    healed = set()
    for r in reset_rows:
        if "RUNNING_PING_RECEIVED" in r.events:
            healed |= r.req_states
    ctx.ob("R2", "ping-received::reset-row", bool(healed), "no row resets the manager when a ping is received in an error state: a manager in an error state never reconnects", he.loc,
           sample={"rule": "R2", "ping_received_resets_from": sorted(healed)})
    # pump triggers
    triggers = {}
    for n, c in awaited:
        req, _ = state_guards(g.iter_guard_atoms(n))
        triggers[call_name(c)] = (req, g.iter_guard_atoms(n))
    pump_states = set()
    for req, _ in triggers.values():
        pump_states |= req
    for s in err_states:
        ok = s in healed or s in pump_states
        ctx.ob("R2", f"error-state::{s}::has-recovery-edge", ok,
               f"state {s} is entered by the switch but neither the ping-received reset row ({sorted(healed)}) nor a driver trigger ({sorted(pump_states)}) ever leaves it: only a user reset recovers",
               he.loc)
    # (b)
    loc_req, loc_facts = triggers.get("async_locate_spas", (set(), set()))
    ctx.ob("R2", "driver::locate-trigger", loc_req == {"IDLE"} and ("self._spa_descriptors is None", True) in loc_facts,
           f"driver does not locate from (IDLE, descriptors None): trigger {sorted(loc_req)} {sorted(t for t, p in loc_facts if p)}", pump.loc)
    # (c)
    con_req, con_facts = triggers.get("async_connect", (set(), set()))
    ok = con_req == {"LOCATED_SPAS"} and ("self._spa_identifier is None", False) in con_facts and ("self._facade is None", True) in con_facts
    ctx.ob("R2", "driver::connect-trigger", ok, f"driver does not connect from (LOCATED_SPAS, identifier set, no facade): {sorted(con_req)} {sorted(map(str, con_facts))}", pump.loc)
    fin = [r for r in state_rows if r.events == {"LOCATING_FINISHED"}]
    ctx.ob("R2", "LOCATING_FINISHED->LOCATED_SPAS", len(fin) == 1 and fin[0].value == "LOCATED_SPAS" and not fin[0].req_states,
           "LOCATING_FINISHED does not unconditionally produce LOCATED_SPAS", he.loc)
    # (d) async_connect reaches async_connect_to_spa which raises CONNECTION_FINISHED
    ac = repo.method(MAN, "async_connect")
    reach = cg.reachable([ac], max_depth=3)
    acts = repo.method(MAN, "async_connect_to_spa")
    ctx.ob("R2", "async_connect->async_connect_to_spa", id(acts.node) in reach, "async_connect no longer reaches async_connect_to_spa", ac.loc)
    als = repo.method(MAN, "async_locate_spas")
    ctx.ob("R2", "async_connect->async_locate_spas", id(als.node) in reach, "async_connect no longer locates first", ac.loc)
    # reset reaches IDLE + descriptors None: C08.I6 (re-checked here in short form)
    reset = repo.method(MAN, "async_reset")
    txt = ast.unparse(reset.node)
    ctx.ob("R2", "async_reset::lands-in-first-trigger", "self._spa_descriptors = None" in txt and "self._spa_state = GeckoSpaState.IDLE" in txt,
           "async_reset does not produce (IDLE, descriptors None), the driver's first trigger", reset.loc)

    # (b') the reset must complete even though it runs inside the ping-loop task it cancels
    from .c10 import reset_survives_self_cancel
    reset_survives_self_cancel(ctx, repo, "R2")

    # ---- R3 loss reported ---------------------------------------------------------------
    pl = repo.method("GeckoAsyncSpa", "_ping_loop")
    gp = cfg_of(pl)
    nr = [(n, c) for n, c in calls_named(gp, "_event_handler") if c.args and ast.unparse(c.args[0]).endswith("RUNNING_PING_NO_RESPONSE")]
    ctx.ob("R3", "_ping_loop::raises-no-response", len(nr) >= 1, "the ping loop never raises RUNNING_PING_NO_RESPONSE: an unreachable spa is never reported", pl.loc)
    for n, c in nr:
        facts = gp.iter_guard_atoms(n)
        missed = ("ping_handler is None", True) in facts
        timed = any("PING_DEVICE_NOT_RESPONDING_TIMEOUT_IN_SECONDS" in t and "_last_ping" in t for t, p in facts)
        ctx.ob("R3", "_ping_loop::no-response-on-missed-path", missed and timed,
               f"RUNNING_PING_NO_RESPONSE is not raised exactly on the missed-ping path after the not-responding timeout; guards {sorted(map(str, facts))}", loc(pl, n.ast),
               sample={"rule": "R3", "guards": sorted(t for t, p in facts)})
    # loop keeps running while open and pings with retry count 1
    gets = [(n, c) for n, c in calls_named(gp, "get") if receiver(c) == "self._protocol"]
    ctx.ob("R3", "_ping_loop::pings-every-iteration", len(gets) == 1 and gp.loop_of(gets[0][0]) is not None, "ping loop does not send one ping per iteration", pl.loc)
    nores = [r for r in rows if r.kind == "state" and "RUNNING_PING_NO_RESPONSE" in r.events]
    ok = len(nores) == 1 and nores[0].req_states == {"CONNECTED"} and str(nores[0].value).startswith("ERROR_")
    ctx.ob("R3", "NO_RESPONSE::leaves-CONNECTED", ok, "the RUNNING_PING_NO_RESPONSE row does not move CONNECTED to an error state", he.loc)
    con = repo.method("GeckoAsyncSpa", "_connect")
    from ..facts import connection_tasks
    started = any(t["coroutine"] == "_ping_loop" for t in connection_tasks(repo))   # _connect interpreted on a model event loop
    ctx.ob("R3", "_connect::starts-ping-loop", started, "GeckoAsyncSpa._connect does not start the ping loop", con.loc)
    ctx.rule("R4", "what a (re)connect downloads is the spa's block: the status-block transfer behind connect and refresh installs exactly the requested bytes or nothing, also when an attempt is abandoned part-way and retried (C01's async assembler model borrowed) - a necessary condition for 'values mirror the spa'")
    from .c01 import async_assembly_model
    async_assembly_model(ctx.borrowed("R4", "C01"), repo)
    ctx.rule("R5", "a transient network error does not end the watch: the endpoint, built by its own constructor and interpreted on a model transport, is still open and its connection-lost future unresolved after error_received(exc) (the operating system reports ICMP / route errors there while the spa is away; the ping loop runs only `while isopen` and exits without an event otherwise), and the call does not raise; positive control: disconnect() closes it and resolves the future")
    endpoint_survives_errors(ctx, repo, "R5")
    ctx.rule("R6", "the watch survives its neighbours' timeouts: the ping loop sleeps in config_sleep on a future shared with every other sleeper; that wait must not be able to cancel the shared future (asyncio.wait, or wait_for on a shield) - otherwise the first timeout of any sleeper ends the ping loop with CancelledError and an unreachable spa is never reported (C17's sleeper model borrowed)")
    from .c17 import sleeper_model
    sleeper_model(ctx.borrowed("R6", "C17", key_contains="leaves-the-shared-future-alone"), repo, "R3")
    ctx.rule("R7", "what one connection counts does not follow the manager into the next: no class keeps per-connection data (error counts, change lists, caches) in a class-level container mutated through the instance (C10.R8's rule borrowed) - an RF-error count shared by all RFERR handlers of the process crosses the halt threshold in the middle of a later handshake and the reset it triggers kills the reconnect driver")
    from .c10 import shared_class_state
    shared_class_state(ctx.borrowed("R7", "C10"), repo, "R8")
    ctx.note("NOT decided (the headline of the property): that recovery happens, within what time, after which fault scripts; that the facade's values mirror the spa afterwards. States that are terminal by design (CONNECTING after 'cannot find spa pack') are not flagged.")
    ctx.assume("a ping loop exists in the states named by the ping-received row (a connection was established before the error)")
