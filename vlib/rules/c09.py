"""C09 - self-healing: three STRUCTURAL necessary conditions only.

R1 the reconnect driver cannot be killed by an exception; R2 the recovery chain exists
link by link; R3 loss is reported.  Everything temporal in the property ("within a
bounded time", "after any fault script", "values mirror the spa") is NOT decided - no
static argument in reach bounds it; see DESIGN.md section 6.
"""
from __future__ import annotations

import ast

from ..callgraph import callgraph
from ..cfg import cfg_of
from ..core import AnalysisError
from ..facts import loc
from ..fsm import MAN, all_raise_sites, rows_of, state_guards
from ..pathrules import calls_named, loop_heads
from ..src import Repo, call_name, has_await, receiver, walk_no_nested


def catches_exception(h):
    if h.type is None:
        return True
    t = ast.unparse(h.type)
    return any(x in t for x in ("Exception", "BaseException")) and "CancelledError" not in t.replace("Exception", "")


def handler_reraises(h):
    return any(isinstance(n, ast.Raise) for s in h.body for n in ast.walk(s))


def contained(fi, node):
    """Is AST node inside a try of fi whose some handler catches Exception and does not
    re-raise?"""
    for t in walk_no_nested(fi.node):
        if isinstance(t, ast.Try) and any(node in list(ast.walk(s)) for s in t.body):
            for h in t.handlers:
                tn = ast.unparse(h.type) if h.type is not None else ""
                if (h.type is None or "Exception" in tn.replace("CancelledError", "")) and "CancelledError" != tn.split(".")[-1]:
                    if not handler_reraises(h):
                        return True
    return False


def whole_body_contained(fi):
    body = [s for s in fi.node.body if not (isinstance(s, ast.Expr) and isinstance(s.value, ast.Constant))]
    return len(body) == 1 and isinstance(body[0], ast.Try) and any(
        (h.type is None or "Exception" in ast.unparse(h.type)) and not handler_reraises(h) for h in body[0].handlers)


def endpoint_survives_errors(ctx, repo, rule):
    from ..absint import ClassRef, Interp, Native, Obj, Opaque, PyRaise, Undecided
    from ..core import AnalysisError
    P = "GeckoAsyncUdpProtocol"

    def build():
        it = Interp(repo, max_depth=8)
        state = {"resolved": False}
        fut = Obj(None, {"done": Native(lambda a, k: state["resolved"], "done"),
                         "set_result": Native(lambda a, k: state.__setitem__("resolved", True), "set_result"),
                         "cancelled": Native(lambda a, k: False, "cancelled")}, name="future")
        tr = Obj(None, {"sendto": Native(lambda a, k: None, "sendto"), "close": Native(lambda a, k: None, "close"),
                        "is_closing": Native(lambda a, k: False, "is_closing")}, name="transport")
        try:
            o = it.apply(ClassRef(repo.cls(P)), [fut, ("10.0.0.1", 10022)], {})
            it.call(repo.method(P, "connection_made"), o, [tr])
            if it.getattr(o, "isopen") is not True:
                raise AnalysisError(f"{P}: not open after connection_made on the model transport")
        except (PyRaise, Undecided) as e:
            raise AnalysisError(f"{P}(future, destination) / connection_made cannot be interpreted: {e}")
        return it, o, state

    er = repo.method(P, "error_received")
    it, o, state = build()
    raised = None
    try:
        it.call(er, o, [Opaque("OSError(ENETUNREACH)")])
        is_open = it.getattr(o, "isopen")
    except PyRaise as e:
        raised, is_open = e.what, None
    except Undecided as e:
        raise AnalysisError(f"{er.qual}: {e}")
    ctx.ob(rule, f"{er.qual}::does-not-raise", raised is None, f"{er.qual} raises {raised} into the event loop's error callback", er.loc)
    if raised is None:
        ctx.ob(rule, f"{er.qual}::endpoint-stays-open", is_open is True and not state["resolved"],
               f"after {er.qual}(exc) the endpoint reads isopen={is_open!r}, connection-lost future resolved={state['resolved']}: one OS-reported send error (ICMP unreachable while the spa is away) closes the "
               f"connection for good - the ping loop leaves its `while isopen` without raising any event, so the loss is never reported and nothing reconnects",
               er.loc, sample={"rule": rule, "after": "error_received", "isopen": str(is_open), "future_resolved": state["resolved"]})
    it, o, state = build()
    try:
        it.call(repo.method(P, "disconnect"), o, [])
        closed = it.getattr(o, "isopen") is False and state["resolved"]
    except (PyRaise, Undecided) as e:
        raise AnalysisError(f"{P}.disconnect: {e}")
    ctx.ob(rule, f"{P}.disconnect::closes-and-resolves", closed, f"{P}.disconnect() leaves the endpoint open or the connection-lost future unresolved (model control)", repo.method(P, "disconnect").loc)


def driver_tasks(repo):
    """[(method, task key)] of the coroutines the manager starts on entering its context"""
    aenter = repo.method(MAN, "__aenter__")
    drivers = []
    from ..facts import started_tasks
    for a, _nm, key, _n in started_tasks(repo, aenter):
        if isinstance(a, ast.Call):
            m = repo.method(MAN, call_name(a), required=False)
            if m is not None:
                drivers.append((m, key))
    return drivers


def ping_loop_model(ctx, repo, rule):
    """GeckoAsyncSpa._ping_loop by interpretation: the spa is built by its constructor (facts.ConnectionModel, not
    connected), its protocol is a model whose get() answers the first two pings and then none, whose endpoint stays open
    for 14 rounds; the sleeping call advances a model clock by the delay it is given.  Observed: one ping per round, sent
    with a budget of one attempt; PING_RECEIVED for each answer, PING_MISSED for each miss, and PING_NO_RESPONSE on a
    miss exactly once the time since the last answer exceeds PING_DEVICE_NOT_RESPONDING_TIMEOUT - so that an unreachable
    spa IS reported, and not before the timeout."""
    from ..absint import BoundMethod, Native, Obj, PyRaise, Undecided
    from ..facts import ConnectionModel
    pl = repo.method("GeckoAsyncSpa", "_ping_loop")
    idle = repo.cls("_GeckoIdleConfig", False)
    cfgmod = idle.mod if idle is not None else repo.mod("config.py")
    TIMEOUT = repo.try_fold(idle.consts.get("PING_DEVICE_NOT_RESPONDING_TIMEOUT_IN_SECONDS"), cfgmod) if idle is not None else None
    if not isinstance(TIMEOUT, (int, float)):
        raise AnalysisError("PING_DEVICE_NOT_RESPONDING_TIMEOUT_IN_SECONDS of the idle table does not fold to a number")
    cm = ConnectionModel(repo, connect=False)
    it = cm.it
    st = {"clock": 1000.0, "round": 0, "gets": [], "last_answer": 1000.0, "log": []}
    ROUNDS, ANSWERED = 14, 2

    def get(a, k):
        st["round"] += 1
        budget = a[2] if len(a) > 2 else k.get("retry_count", "<default>")
        st["gets"].append(budget)
        if st["round"] <= ANSWERED:
            st["last_answer"] = st["clock"]
            return Obj(None, {"_sequence": 0}, name="ping-reply")
        return None
    proto = Obj(None, {"get": Native(get, "get"), "queue_send": Native(lambda a, k: None), "disconnect": Native(lambda a, k: None)}, name="protocol")
    found = False
    for k_, v_ in list(cm.spa.attrs.items()):
        if k_.endswith("protocol") and v_ is None:
            cm.spa.attrs[k_] = proto
            found = True
    if not found:
        cm.it.setattr(cm.spa, "_protocol", proto)
    events = cm.events

    def ahook(it_, base, attr):
        if base is proto and attr == "isopen":
            return st["round"] < ROUNDS
        return NotImplemented

    def chook(it_, node, callee, args, kwargs):
        nm = getattr(callee, "name", "")
        if nm == "time.monotonic":
            return st["clock"]
        if nm == "asyncio.sleep" or getattr(getattr(callee, "fi", None), "name", "") == "config_sleep":
            d = args[0] if args and isinstance(args[0], (int, float)) else 1.0
            st["log"].append((st["round"], len(events), st["clock"]))
            st["clock"] += float(d)
            return None
        if nm.startswith("datetime"):
            return Obj(None, {"replace": Native(lambda a, k: "2026-01-01T00:00:00Z")}, name="utcnow")
        return NotImplemented
    it.attr_hook, it.call_hook = ahook, chook
    it.globals["GeckoConfig"] = Obj(idle)
    before = len(events)
    try:
        it.steps = 0
        it.call(pl, cm.spa, [])
        outcome = None
    except PyRaise as e:
        outcome = e.what
    except Undecided as e:
        raise AnalysisError(f"{pl.qual} on the model connection: {e}")
    ev = events[before:]
    ctx.ob(rule, "_ping_loop::runs-while-open", outcome is None and st["round"] == ROUNDS,
           f"the ping loop on an endpoint that stays open for {ROUNDS} rounds: {st['round']} ping(s) sent, outcome {outcome!r}", pl.loc)
    ctx.ob(rule, "_ping_loop::pings-every-iteration", len(st["gets"]) == st["round"] and all(b == 1 for b in st["gets"]),
           f"pings are sent with retry budgets {st['gets'][:5]}, expected one attempt (budget 1) per round: a ping that retries for long delays the report of a lost spa", pl.loc)
    # per round: which events were raised (events between two sleeps)
    marks = [m[1] for m in st["log"]]
    per_round, prev = [], 0
    for m in marks:
        per_round.append(ev[prev:m])
        prev = m
    clocks = [m[2] for m in st["log"]]
    bad = []
    reported = False
    last_answer = None
    for i, (evs, clk) in enumerate(zip(per_round, clocks), start=1):
        if i <= ANSWERED:
            last_answer = clk
            if "RUNNING_PING_RECEIVED" not in evs or "RUNNING_PING_NO_RESPONSE" in evs or "RUNNING_PING_MISSED" in evs:
                bad.append((i, evs, "answered"))
            continue
        overdue = last_answer is not None and clk - last_answer > TIMEOUT
        if "RUNNING_PING_MISSED" not in evs or "RUNNING_PING_RECEIVED" in evs:
            bad.append((i, evs, "missed"))
        if ("RUNNING_PING_NO_RESPONSE" in evs) != overdue:
            bad.append((i, evs, f"{clk - last_answer:.0f}s since the last answer, timeout {TIMEOUT}s"))
        reported = reported or "RUNNING_PING_NO_RESPONSE" in evs
    ctx.ob(rule, "_ping_loop::raises-no-response", reported,
           f"the spa stops answering after round {ANSWERED}; over {ROUNDS} rounds ({clocks[-1] - clocks[0] if clocks else 0:.0f}s of model time, timeout {TIMEOUT}s) the ping loop never raises "
           f"RUNNING_PING_NO_RESPONSE: an unreachable spa is never reported", pl.loc, sample={"rule": rule, "rounds": ROUNDS, "events_per_round": [list(e) for e in per_round[:6]]})
    ctx.ob(rule, "_ping_loop::no-response-on-missed-path", not bad,
           f"per round (round, events, situation): {bad[:3]} - expected PING_RECEIVED on an answer, PING_MISSED on a miss, and PING_NO_RESPONSE on a miss exactly when more than {TIMEOUT}s have passed since the last answer",
           pl.loc)


def refresh_loop_model(ctx, repo, rule):
    """GeckoAsyncSpa._refresh_loop on the connection model: eight passes while the connection is open; the spa is connected
    throughout, answers no ping during passes 2-3 (a short outage the manager rides out in CONNECTED), is 'not connected'
    in pass 5.  The loop must keep running through all of it and refresh the block in every pass in which the spa is
    connected and answering (1, 4, 6, 7, 8) - it is the only thing that repairs a value whose partial update was lost."""
    from ..absint import Native, Obj, PyRaise, Undecided
    from ..facts import ConnectionModel
    rl = repo.method("GeckoAsyncSpa", "_refresh_loop")
    cm = ConnectionModel(repo, connect=False)
    it = cm.it
    st = {"pass": 0, "refreshed": [], "events": []}
    QUIET, OFFLINE, LAST = {2, 3}, {5}, 8
    proto = Obj(None, {"get": Native(lambda a, k: Obj(None, {"channel": 10, "signal_strength": 33}, name="channel-reply"), "get")}, name="protocol")
    cm.spa.attrs["_protocol"] = proto
    sobj = it.getattr(cm.spa, "struct")
    if isinstance(sobj, Obj):
        sobj.attrs["get"] = Native(lambda a, k: (st["refreshed"].append(st["pass"]), True)[1], "struct.get")
    inner_hook = it.call_hook

    def hook(it_, node, callee, a, kw):
        f = getattr(node, "func", None)
        nm = f.id if isinstance(f, ast.Name) else (f.attr if isinstance(f, ast.Attribute) else "")
        if nm in ("config_sleep", "sleep"):
            st["pass"] += 1
            return None
        return inner_hook(it_, node, callee, a, kw)
    it.call_hook = hook
    it.attr_hook = lambda _i, b, a_: ((st["pass"] < LAST) if (b is cm.spa and a_ == "isopen") else
                                      ((st["pass"] not in QUIET) if (b is cm.spa and a_ == "is_responding_to_pings") else
                                       ((st["pass"] not in OFFLINE) if (b is cm.spa and a_ == "is_connected") else NotImplemented)))
    try:
        it.steps = 0
        it.call(rl, cm.spa, [])
        out = None
    except PyRaise as e:
        out = e.what
    except Undecided as e:
        raise AnalysisError(f"{rl.qual} on the connection model: {e}")
    want = [1, 4, 6, 7]
    ok = out is None and st["pass"] >= LAST and [p for p in st["refreshed"] if p < LAST] == want
    ctx.ob(rule, f"{rl.qual}::keeps-refreshing-through-a-quiet-spell", ok,
           f"{rl.qual}: {st['pass']} pass(es) made of {LAST} (outcome {out!r}); the block was refreshed in passes {st['refreshed']}, expected {want} (every pass in which the spa is connected and answering pings, "
           f"before AND after a spell without answers): a refresh loop that ends when pings pause leaves a CONNECTED manager whose facade never catches up with changes whose partial update was lost", rl.loc,
           sample={"rule": rule, "passes": st["pass"], "refreshed": st["refreshed"]})


def driver_follows_spa_info(ctx, repo, rule):
    from ..absint import Native, Obj, Opaque, PyRaise, Undecided
    from ..managermodel import Manager, MAN, STATE
    # the driver: the coroutine started under the manager's own key (R1's role lookup)
    pump = repo.method(MAN, "_sequence_pump", required=False)
    if pump is None:
        cands = [f for f in repo.all_methods(MAN).values() if f.is_async and any(isinstance(n, ast.While) for n in ast.walk(f.node))
                 and any(isinstance(n, ast.Call) and call_name(n) == "async_connect" for n in ast.walk(f.node))]
        if len(cands) != 1:
            raise AnalysisError(f"{MAN}: the reconnect driver (a coroutine with a loop that calls async_connect) was not identified ({[c.qual for c in cands]})")
        pump = cands[0]
    m = Manager(repo, kwargs={"spa_identifier": "SPA-OLD", "spa_name": "My spa", "spa_address": "10.0.0.5"})
    m.put("IDLE", facade=False, spa=False, descriptors=False)
    calls = []
    st = {"sleeps": 0, "changed": False}

    def locate(a, k):
        calls.append(("locate", st["sleeps"], tuple(a), dict(k)))
        m.it.setattr(m.obj, "_spa_descriptors", [])
        m.it.setattr(m.obj, "_spa_state", m.member(STATE, "LOCATED_SPAS"))

    def connect(a, k):
        calls.append(("connect", st["sleeps"], tuple(a), dict(k)))
    m.obj.attrs["async_locate_spas"] = Native(locate, "async_locate_spas")
    m.obj.attrs["async_connect"] = Native(connect, "async_connect")
    inner = m.it.call_hook

    def hook(it, node, callee, args, kwargs):
        if getattr(callee, "name", "") == "asyncio.sleep" and not st.get("inside"):
            st["sleeps"] += 1
            if st["sleeps"] == 1:
                st["inside"] = True
                try:
                    it.call(repo.method(MAN, "async_set_spa_info"), m.obj, ["10.0.0.77", "SPA-NEW", "My spa"])
                finally:
                    st["inside"] = False
                st["changed"] = True
                return None
            if st["sleeps"] >= 3:
                raise PyRaise("asyncio.CancelledError", node)
            return None
        return inner(it, node, callee, args, kwargs)
    m.it.call_hook = hook
    try:
        m.it.steps = 0
        m.it.call(pump, m.obj, [])
    except PyRaise as e:
        if "CancelledError" not in e.what:
            raise AnalysisError(f"{pump.qual} on the manager model raises {e.what}")
    except Undecided as e:
        raise AnalysisError(f"{pump.qual} on the manager model: {e}")
    first = [c for c in calls if c[1] == 0]
    later = [c for c in calls if c[1] >= 1]

    def vals(c):
        return [x for x in list(c[2]) + list(c[3].values()) if isinstance(x, str)]
    ok_first = any(c[0] == "locate" and "10.0.0.5" in vals(c) for c in first) and any(c[0] == "connect" and "SPA-OLD" in vals(c) for c in first)
    if not ok_first or not st["changed"]:
        raise AnalysisError(f"{pump.qual} on the manager model: the first pass did not locate and connect with the configured values ({calls[:4]}) - scenario not applicable")
    stale = [c for c in later if "10.0.0.5" in vals(c) or "SPA-OLD" in vals(c)]
    fresh = any(c[0] == "locate" and "10.0.0.77" in vals(c) for c in later) and any(c[0] == "connect" and "SPA-NEW" in vals(c) and "10.0.0.77" in vals(c) for c in later)
    ctx.ob(rule, f"{pump.qual}::follows-set-spa-info", fresh and not stale,
           f"{pump.qual}: after async_set_spa_info('10.0.0.77', 'SPA-NEW', ...) between two passes, the next pass calls {[(c[0], vals(c)) for c in later]} - expected a locate at 10.0.0.77 and a connect to SPA-NEW there: "
           f"the driver keeps using the address / identifier it read when it was started", pump.loc,
           sample={"rule": rule, "first_pass": [(c[0], vals(c)) for c in first], "after_set_spa_info": [(c[0], vals(c)) for c in later]})


def check(ctx):
    repo = Repo()
    cg = callgraph(repo)
    ctx.rule("R1", "the reconnect driver (the coroutine started under the manager's own task key, an unconditional loop calling locate/connect) cannot be killed by an exception: every awaited call in the loop is contained by `except Exception` without re-raise (in the loop or as the callee's whole body); CancelledError still propagates")
    ctx.rule("R2", "recovery chain, link by link: (a) every ERROR_* state the switch can assign is left by the ping-received reset row or is a pump trigger; (b) reset lands in the pump's first trigger (IDLE, no descriptors); (c) LOCATING_FINISHED produces the second trigger; (d) connect leads to the single CONNECTED site")
    ctx.rule("R3", "loss is reported: the ping loop raises RUNNING_PING_NO_RESPONSE on the missed-ping path once the not-responding timeout has passed; that row moves CONNECTED to an error state; the ping loop is started by _connect")

    # ---- locate the driver by role -------------------------------------------------
    aenter = repo.method(MAN, "__aenter__")
    drivers = driver_tasks(repo)
    ctx.ob("R1", "driver::started-on-enter", len(drivers) == 1, f"expected one driver task started in {MAN}.__aenter__, found {[d[0].qual for d in drivers]}", aenter.loc)
    if len(drivers) != 1:
        return
    pump, key = drivers[0]
    g = cfg_of(pump)
    heads = [h for h in loop_heads(g) if h.kind == "test" and h.const_true]
    ctx.ob("R1", "driver::unconditional-loop", len(heads) == 1, f"{pump.qual} is not a single `while True` loop", pump.loc)
    aexit = repo.method(MAN, "__aexit__")
    ok = any(isinstance(n, ast.Call) and call_name(n) == "cancel_key_tasks" and n.args and repo.try_fold(n.args[0], aexit.mod, aexit.cls) == key for n in ast.walk(aexit.node))
    ctx.ob("R1", "driver::cancelled-only-on-exit", ok, f"{MAN}.__aexit__ does not cancel the driver's key {key!r}", aexit.loc)
    others = [f.qual for f in repo.all_functions() if f.qual != aexit.qual and any(
        isinstance(n, ast.Call) and call_name(n) == "cancel_key_tasks" and n.args and repo.try_fold(n.args[0], f.mod, f.cls) == key for n in ast.walk(f.node))]
    ctx.ob("R1", "driver::not-cancelled-elsewhere", not others, f"the driver's tasks are also cancelled in {others} (e.g. by reset): reconnection would stop", pump.loc)
    # no OTHER domain's cancel can hit the driver task (registry interpreted, vlib/taskmodel.py)
    from ..taskmodel import check_registry
    if isinstance(key, str):
        check_registry(ctx, repo, "R1", pump_key=key, only=("isolation",))
    # containment is decided on the manager model (below, with the recovery chain): an exception injected into the
    # driver's locate / connect call either ends the driver task or is survived - however the loop is written
    # cancellation still propagates
    for t in walk_no_nested(pump.node):
        if isinstance(t, ast.Try):
            for h in t.handlers:
                tn = ast.unparse(h.type) if h.type is not None else "bare"
                if h.type is None or "BaseException" in tn or "CancelledError" in tn:
                    ctx.ob("R1", f"{pump.qual}::except-{tn}::propagates-cancel", handler_reraises(h),
                           f"{pump.qual}: handler `except {tn}` swallows cancellation (the driver could not be stopped on exit)", loc(pump, h))

    # ---- R2 chain ------------------------------------------------------------------
    # by interpretation on the manager model (vlib/managermodel.py): the switch's behaviour for every state x event, and
    # one round of the driver from every state x (descriptors, identifier, facade) situation - whatever the switch and the
    # driver look like (an if/elif ladder, a table of transition records, a list of steps)
    he = repo.method(MAN, "_handle_event")
    from ..absint import BoundMethod, PyRaise, Undecided
    from ..managermodel import Manager, lifecycle_relation
    rel, states, events, _m0 = lifecycle_relation(repo)
    err_states = sorted({o["final"] for o in rel.values() if isinstance(o.get("final"), str) and o["final"].startswith("ERROR_")})
    ctx.floor("R2", "error states assigned by the switch", len(err_states), 3)
    healed = {s for s in states if s.startswith("ERROR_") and all(rel[(s, fac, "RUNNING_PING_RECEIVED")].get("final") == "IDLE" and "raises" not in rel[(s, fac, "RUNNING_PING_RECEIVED")]
                                                                 for fac in (True, False))}
    ctx.ob("R2", "ping-received::reset-row", bool(healed), "no error state is left (for IDLE, through a reset) when a ping is received: a manager in an error state never reconnects", he.loc,
           sample={"rule": "R2", "ping_received_resets_from": sorted(healed)})

    def driver_round(state, descriptors, identifier, facade):
        """one round of the driver loop on the manager model -> names of the manager methods it awaited"""
        m = Manager(repo, kwargs={"spa_identifier": identifier, "spa_name": "My spa", "spa_address": None})
        m.put(state, facade=facade, spa=False, descriptors=descriptors)
        called = []

        def hook(it_, node, callee, args, kwargs):
            nm = getattr(callee, "name", "")
            if nm == "asyncio.sleep":
                raise PyRaise("asyncio.CancelledError", node)   # the round is over: stop the driver here
            if isinstance(callee, BoundMethod) and callee.obj is m.obj and callee.fi.is_async and not callee.fi.name.startswith("_"):
                called.append(callee.fi.name)   # the manager's public operations are not run, only noted
                return None
            return m._hook(it_, node, callee, args, kwargs)
        m.it.call_hook = hook
        try:
            m.it.steps = 0
            m.it.call(pump, m.obj, [])
        except PyRaise as e:
            if "CancelledError" not in e.what:
                called.append(f"raises {e.what}")
        except Undecided as e:
            raise AnalysisError(f"{pump.qual} on the manager model ({state}): {e}")
        return called
    def driver_survives(state, descriptors, identifier, facade, victim):
        """the driver's round from the given situation when `victim` (a manager method it awaits) raises OSError"""
        m = Manager(repo, kwargs={"spa_identifier": identifier, "spa_name": "My spa", "spa_address": None})
        m.put(state, facade=facade, spa=False, descriptors=descriptors)
        hit = []

        def hook(it_, node, callee, args, kwargs):
            nm = getattr(callee, "name", "")
            if nm == "asyncio.sleep":
                raise PyRaise("asyncio.CancelledError", node)
            if isinstance(callee, BoundMethod) and callee.obj is m.obj and callee.fi.is_async and not callee.fi.name.startswith("_"):
                if callee.fi.name == victim:
                    hit.append(victim)
                    raise PyRaise("OSError: [Errno 101] Network is unreachable (injected)", node)
                return None
            return m._hook(it_, node, callee, args, kwargs)
        m.it.call_hook = hook
        try:
            m.it.steps = 0
            m.it.call(pump, m.obj, [])
        except PyRaise as e:
            return bool(hit), "CancelledError" in e.what
        except Undecided as e:
            raise AnalysisError(f"{pump.qual} on the manager model ({state}, {victim} failing): {e}")
        return bool(hit), True
    for nm, sit in (("async_locate_spas", ("IDLE", False, "SPA-ID", False)), ("async_connect", ("LOCATED_SPAS", True, "SPA-ID", False))):
        reached, survived = driver_survives(*sit, nm)
        callee = repo.method(MAN, nm, required=False)
        ok = reached and (survived or (callee is not None and whole_body_contained(callee)))
        ctx.ob("R1", f"driver::await-{nm}::contained", ok,
               f"{pump.qual}: an exception raised by `await self.{nm}(...)` " + ("" if reached else "(the call was not reached from its trigger situation) ") +
               f"is neither caught in the loop nor inside {nm}: it terminates the driver task for good and nothing ever reconnects "
               f"(e.g. GeckoAsyncSpa._connect dereferences self._protocol, which a concurrent reset sets to None)",
               pump.loc, sample={"rule": "R1", "driver": pump.qual, "await": nm, "contained": ok})
    rounds = {}
    for s_ in states:
        for d_ in (False, True):
            for i_ in (None, "SPA-ID"):
                for f_ in (False, True):
                    rounds[(s_, d_, i_, f_)] = driver_round(s_, d_, i_, f_)
    ctx.count("R2:driver rounds interpreted", len(rounds))
    ctx.floor("R2", "driver rounds interpreted", len(rounds), 64)
    pump_states = {k[0] for k, v in rounds.items() if any(x in ("async_locate_spas", "async_connect", "async_reset", "async_connect_to_spa") for x in v)}
    ctx.extra["driver_rounds"] = {f"{k[0]}/{'desc' if k[1] else 'nodesc'}/{k[2]}/{'facade' if k[3] else 'nofacade'}": v for k, v in rounds.items() if v}
    for s in err_states:
        ok = s in healed or s in pump_states
        ctx.ob("R2", f"error-state::{s}::has-recovery-edge", ok,
               f"state {s} is entered by the switch but neither the ping-received reset row ({sorted(healed)}) nor a driver trigger ({sorted(pump_states)}) ever leaves it: only a user reset recovers",
               he.loc)
    # (b) the driver locates exactly from (IDLE, no descriptors)
    loc_from = sorted((k for k, v in rounds.items() if "async_locate_spas" in v), key=str)
    want_loc = sorted((k for k in rounds if k[0] == "IDLE" and not k[1]), key=str)
    ctx.ob("R2", "driver::locate-trigger", loc_from == want_loc,
           f"the driver calls async_locate_spas from {[(k[0], 'descriptors' if k[1] else 'no descriptors') for k in loc_from][:6]}, expected exactly from (IDLE, no descriptors)", pump.loc)
    # (c) ... and connects exactly from (LOCATED_SPAS, identifier set, no facade)
    con_from = sorted((k for k, v in rounds.items() if "async_connect" in v), key=str)
    want_con = sorted((k for k in rounds if k[0] == "LOCATED_SPAS" and k[2] is not None and not k[3]), key=str)
    ctx.ob("R2", "driver::connect-trigger", con_from == want_con,
           f"the driver calls async_connect from {[(k[0], k[2], 'facade' if k[3] else 'no facade') for k in con_from][:6]}, expected exactly from (LOCATED_SPAS, identifier set, no facade)", pump.loc)
    fin_bad = sorted({s_ for s_ in states for fac in (True, False) if rel[(s_, fac, "LOCATING_FINISHED")].get("final") != "LOCATED_SPAS"})
    ctx.ob("R2", "LOCATING_FINISHED->LOCATED_SPAS", not fin_bad,
           f"LOCATING_FINISHED does not produce LOCATED_SPAS from {fin_bad[:4]}", he.loc)
    # (d) async_connect reaches async_connect_to_spa which raises CONNECTION_FINISHED
    ac = repo.method(MAN, "async_connect")
    reach = cg.reachable([ac], max_depth=3)
    acts = repo.method(MAN, "async_connect_to_spa")
    ctx.ob("R2", "async_connect->async_connect_to_spa", id(acts.node) in reach, "async_connect no longer reaches async_connect_to_spa", ac.loc)
    als = repo.method(MAN, "async_locate_spas")
    ctx.ob("R2", "async_connect->async_locate_spas", id(als.node) in reach, "async_connect no longer locates first", ac.loc)
    # reset reaches IDLE + descriptors None: C08.I6 (re-checked here in short form)
    reset = repo.method(MAN, "async_reset")
    _mr = Manager(repo).warm_up()
    _mr.put("CONNECTED", facade=True, spa=True, descriptors=True)
    try:
        _mr.reset()
        _after = (_mr.state(), _mr.it.getattr(_mr.obj, "_spa_descriptors"))
    except PyRaise as e:
        _after = (f"raises {e.what}", None)
    ctx.ob("R2", "async_reset::lands-in-first-trigger", _after == ("IDLE", None) and bool(rounds.get(("IDLE", False, "SPA-ID", False))),
           f"async_reset from CONNECTED leaves (state, descriptors) = {_after}: not (IDLE, None), the driver's first trigger", reset.loc)

    # (b'') nothing resets the manager from under a connection attempt: while CONNECTING the ping loop of the new connection
    # is already running; a runtime event that moves the manager into a state of the ping-received reset row lets the next
    # answered ping reset it while the handshake is still in flight - the attempt fails on objects the reset took away,
    # and with the driver awaiting it (see the known finding) nothing reconnects
    for ev_ in ("ERROR_RF_ERROR", "RUNNING_PING_MISSED", "RUNNING_PING_NO_RESPONSE", "RUNNING_SPA_PACK_REFRESHED", "RUNNING_PING_RECEIVED"):
        _mc = Manager(repo).warm_up()
        _mc.put("CONNECTING", facade=False, spa=True, connected=False, descriptors=True)
        try:
            _mc.fire(ev_)
            mid = _mc.state()
            _mc.fire("RUNNING_PING_RECEIVED")
            out_ = None
        except PyRaise as e:
            mid, out_ = _mc.state(), e.what
        reset_ = "spa.disconnect" in _mc.log
        ctx.ob("R2", f"attempt-in-flight::{ev_}::then-ping::no-reset", not reset_,
               f"while CONNECTING, {ev_} (state afterwards {mid}) followed by an answered ping: {'the manager resets itself' if reset_ else 'no reset'}{', raises ' + out_ if out_ else ''} - "
               f"a reset while the handshake is in flight takes the protocol away from under it; the attempt raises out of the driver and nothing reconnects", he.loc,
               sample={"rule": "R2", "event": ev_, "state_after_event": mid, "reset": reset_})

    # (b') the reset must complete even though it runs inside the ping-loop task it cancels
    from .c10 import reset_survives_self_cancel
    reset_survives_self_cancel(ctx, repo, "R2")

    # ---- R3 loss reported ---------------------------------------------------------------
    ping_loop_model(ctx, repo, "R3")
    refresh_loop_model(ctx, repo, "R4")
    _o = rel[("CONNECTED", True, "RUNNING_PING_NO_RESPONSE")]
    ok = isinstance(_o.get("final"), str) and _o["final"].startswith("ERROR_") and "raises" not in _o
    ctx.ob("R3", "NO_RESPONSE::leaves-CONNECTED", ok, f"RUNNING_PING_NO_RESPONSE in CONNECTED leaves the manager in {_o.get('final')}: not an error state, the loss is not reported", he.loc)
    con = repo.method("GeckoAsyncSpa", "_connect")
    from ..facts import connection_tasks
    started = any(t["coroutine"] == "_ping_loop" for t in connection_tasks(repo))   # _connect interpreted on a model event loop
    ctx.ob("R3", "_connect::starts-ping-loop", started, "GeckoAsyncSpa._connect does not start the ping loop", con.loc)
    ctx.rule("R4", "what a (re)connect downloads is the spa's block: the status-block transfer behind connect and refresh installs exactly the requested bytes or nothing, also when an attempt is abandoned part-way and retried (C01's async assembler model borrowed) - a necessary condition for 'values mirror the spa'")
    from .c01 import async_assembly_model
    async_assembly_model(ctx.borrowed("R4", "C01"), repo)
    ctx.rule("R5", "a transient network error does not end the watch: the endpoint, built by its own constructor and interpreted on a model transport, is still open and its connection-lost future unresolved after error_received(exc) (the operating system reports ICMP / route errors there while the spa is away; the ping loop runs only `while isopen` and exits without an event otherwise), and the call does not raise; positive control: disconnect() closes it and resolves the future")
    endpoint_survives_errors(ctx, repo, "R5")
    ctx.rule("R6", "the watch survives its neighbours' timeouts: the ping loop sleeps in config_sleep on a future shared with every other sleeper; that wait must not be able to cancel the shared future (asyncio.wait, or wait_for on a shield) - otherwise the first timeout of any sleeper ends the ping loop with CancelledError and an unreachable spa is never reported (C17's sleeper model borrowed)")
    from .c17 import sleeper_model
    sleeper_model(ctx.borrowed("R6", "C17", key_contains="leaves-the-shared-future-alone"), repo, "R3")
    ctx.rule("R8", "a discovery nobody answers does not end the driver: async_connect on the manager model, with the real locator on a model event loop where no reply arrives, announces SPA_NOT_FOUND and returns - it does not raise (an assertion on a descriptor list that is None escapes the driver loop and nothing ever reconnects) (C08.I11 borrowed)")
    from .c08 import nothing_found_is_announced as _nfa
    _nfa(ctx.borrowed("R8", "C08"), repo, "I11")
    ctx.rule("R7", "what one connection counts does not follow the manager into the next: no class keeps per-connection data (error counts, change lists, caches) in a class-level container mutated through the instance (C10.R8's rule borrowed) - an RF-error count shared by all RFERR handlers of the process crosses the halt threshold in the middle of a later handshake and the reset it triggers kills the reconnect driver")
    from .c10 import shared_class_state
    shared_class_state(ctx.borrowed("R7", "C10"), repo, "R8")
    ctx.rule("R9", "the watch runs under BOTH configuration tables: every request the connection's loops send (ping, refresh, watercare, reminders) is built, under the idle table, the active table and a table whose members all differ, with a positive timeout - a timeout computed from another member (`PING_FREQUENCY_IN_SECONDS // 4` is 0 in the active table) fails the assertion of wait_for_response the first time a pump runs: the ping loop ends with the exception, nothing raises RUNNING_PING_NO_RESPONSE any more, the refresh and facade loops skip for good, and the manager stays CONNECTED through every later outage")
    from ..handlermodel import armed_under_every_table
    armed_under_every_table(ctx, repo, "R9", only=("GeckoPingProtocolHandler", "GeckoStatusBlockProtocolHandler", "GeckoWatercareProtocolHandler", "GeckoRemindersProtocolHandler"),
                            why=" - the ping loop dies and an unreachable spa is never reported")
    ctx.rule("R10", "set-spa-info reaches the driver: the reconnect driver, interpreted for two passes on the manager model with the real async_set_spa_info (new address, new identifier) called between them, locates and connects in the second pass with the NEW address and identifier - a driver that read them once before its loop keeps looking for the spa where it no longer is: SPA_NOT_FOUND, a state nothing leaves")
    driver_follows_spa_info(ctx, repo, "R10")
    ctx.rule("R11", "a reset always gets through the facade: async_reset awaits facade.disconnect() before anything else, so that call must complete whatever the facade's own task has done so far - on the facades built for every platform, with the update task registered but not yet run (a reset in the loop iteration that built the facade: a task cancelled before its first step never reaches its `finally`), disconnect() completes; a disconnect that waits for a signal only the update task's body gives hangs the reset for good: the manager stays CONNECTED to a dead facade, and every later self-heal goes through the same hung call (C08.I14 borrowed)")
    from .c08 import facade_disconnect_completes as _fdc9
    _fdc9(ctx.borrowed("R11", "C08"), repo, "I14")
    ctx.note("NOT decided (the headline of the property): that recovery happens, within what time, after which fault scripts; that the facade's values mirror the spa afterwards. States that are terminal by design (CONNECTING after 'cannot find spa pack') are not flagged.")
    ctx.assume("a ping loop exists in the states named by the ping-received row (a connection was established before the error)")
