"""Facade / automation objects by interpretation.

The automation layer is plain object code over a dictionary of accessors, so its behaviour on a *model
spa* can be computed by the interpreter (vlib.absint) instead of being read off statement shapes:

  mode_decision(ctx, repo, rule)      C17.R5  _on_config_device_change hands set_config_mode  any(device.is_on)
                                              over pumps + blowers, exactly once
  switch_commands(ctx, repo, rule..)  C13.R1/R2  GeckoSwitch on/off, sync + async, every (state, keypad, type)
                                              combination: nothing when already there, else exactly one press /
                                              one write of True/False to the device's own accessor
  inventory(ctx, repo, rule..)        C12.R1-R3  both scans on model wirings: exactly the wired devices with a
                                              demand and a DEVICES row, once, in table order, right class / row /
                                              demand, sensors for existing items; both facades agree

Model objects are `Obj`s with the public attributes the automation code reads (`value`, `tag`, `items`,
`type`, `watch`, `press` ...); device classes are built by their real constructors.
"""
from __future__ import annotations

import ast

from .absint import ClassRef, Interp, Native, Obj, Opaque, PyRaise, Undecided
from .core import AnalysisError
from .facts import class_const


class Rec:
    """records what the model spa / accessors were asked to do"""

    def __init__(self):
        self.log = []


def accessor(rec, tag, value, type_="Enum", items=None):
    a = Obj(None, {"tag": tag, "value": value, "type": type_, "items": items if items is not None else ["OFF", "LO", "HI"]}, name=f"acc<{tag}>")
    a.attrs["watch"] = Native(lambda args, kw: None, "watch")
    a.attrs["unwatch"] = Native(lambda args, kw: None, "unwatch")

    def aset(args, kw):
        rec.log.append(("write", tag, args[0]))
        a.attrs["value"] = args[0]
    a.attrs["async_set_value"] = Native(aset, "async_set_value")
    # `acc.value = x` (the blocking writers) is a device write also when x equals the current value
    a.attrs["__setattr_hook__"] = Native(lambda args, kw: rec.log.append(("write", tag, args[1])) if args[0] == "value" else None, "setattr-hook")
    return a


def model_facade(rec, accessors, struct=None, facade_cls=None):
    spa = Obj(None, {"accessors": accessors, "struct": struct or Obj(None, name="struct")}, name="spa")
    spa.attrs["press"] = Native(lambda a, k: rec.log.append(("press", a[0])), "press")
    spa.attrs["async_press"] = Native(lambda a, k: rec.log.append(("press", a[0])), "async_press")
    fac = Obj(facade_cls, {"_spa": spa, "spa": spa, "unique_id": "SPA-ID", "name": "My Spa"}, name="facade")
    return fac, spa


def init_defaults(repo, cname):
    """attributes that the class's __init__ binds to plain constants / empty displays: a hand-made model
    instance starts with them, so code that reads a flag introduced by a refactoring finds it"""
    out = {}
    init = repo.method(cname, "__init__", required=False)
    if init is None:
        return out
    for n in ast.walk(init.node):
        if isinstance(n, (ast.Assign, ast.AnnAssign)) and getattr(n, "value", None) is not None:
            for t in (n.targets if isinstance(n, ast.Assign) else [n.target]):
                if isinstance(t, ast.Attribute) and isinstance(t.value, ast.Name) and t.value.id == "self":
                    v = n.value
                    if isinstance(v, ast.Constant):
                        out.setdefault(t.attr, v.value)
                    elif isinstance(v, (ast.List, ast.Tuple)) and not v.elts:
                        out.setdefault(t.attr, [] if isinstance(v, ast.List) else ())
                    elif isinstance(v, ast.Dict) and not v.keys:
                        out.setdefault(t.attr, {})
    return out


def _writes(rec, accessors, before):
    """writes done by plain attribute assignment (`acc.value = x`) are seen as value changes"""
    out = list(rec.log)
    for k, a in accessors.items():
        if a.attrs["value"] != before[k] and not any(w[0] == "write" and w[1] == k for w in rec.log):
            out.append(("write", k, a.attrs["value"]))
    return out


# ------------------------------------------------------------------------------------------------ C17.R5
def mode_decision(ctx, repo, rule):
    f = repo.method("GeckoAsyncFacade", "_on_config_device_change")
    n = 0
    for pumps in ((), (False,), (True,), (False, True)):
        for blowers in ((), (False,), (True,)):
            got = []
            interp = Interp(repo)

            def hook(it, node, callee, args, kwargs):
                fn = getattr(node, "func", None)
                if (isinstance(fn, ast.Name) and fn.id == "set_config_mode") or (isinstance(fn, ast.Attribute) and fn.attr == "set_config_mode"):
                    got.append(args[0] if args else kwargs.get("active"))
                    return None
                return NotImplemented
            interp.call_hook = hook
            mk = lambda on: Obj(None, {"is_on": on}, name="device")  # noqa: E731
            attrs = init_defaults(repo, "GeckoAsyncFacade")
            attrs.update({"_pumps": [mk(x) for x in pumps], "_blowers": [mk(x) for x in blowers], "_lights": [mk(True)]})
            me = Obj(repo.cls("GeckoAsyncFacade"), attrs)
            try:
                interp.call(f, me, [])
            except PyRaise as e:
                got.append(f"raises {e.what}")
            except Undecided as e:
                raise AnalysisError(f"{f.qual}: cannot interpret: {e}")
            want = any(pumps) or any(blowers)
            n += 1
            ok = len(got) == 1 and isinstance(got[0], bool) and got[0] == want
            ctx.ob(rule, f"{f.qual}::pumps={list(pumps)}::blowers={list(blowers)}", ok,
                   f"{f.qual} with pumps on={list(pumps)}, blowers on={list(blowers)} (and a light on) switches the configuration {got} - expected exactly one set_config_mode({want})",
                   f.loc, sample={"rule": rule, "pumps": list(pumps), "blowers": list(blowers), "mode": [str(g) for g in got]} if n % 4 == 1 else None)
    ctx.floor(rule, "device on/off valuations", n, 12)


def inventory_reads_are_pure(ctx, repo, rule):
    """the inventory a facade presents is what the scan built, however often it is asked for: on a model facade holding
    two pumps, a blower, a light, two sensors and a binary sensor every read-only member that returns devices is read
    three times (a front end polls them; the facade reads `all_config_change_devices` itself on every device change):
    the pump / blower / light / sensor lists the scan left are unchanged and every read gives the same devices."""
    n = 0
    for fcls in ("GeckoAsyncFacade", "GeckoFacade"):
        c = repo.cls(fcls)
        interp = Interp(repo, max_depth=8)
        mk = lambda nm: Obj(None, {"key": nm, "name": nm, "is_on": False, "unique_id": f"id-{nm}"}, name=f"device<{nm}>")  # noqa: E731
        attrs = init_defaults(repo, fcls)
        stores = {"_pumps": [mk("P1"), mk("P2")], "_blowers": [mk("BL")], "_lights": [mk("LI")], "_sensors": [mk("S1"), mk("S2")], "_binary_sensors": [mk("B1")]}
        attrs.update({k: list(v) for k, v in stores.items()})
        for k_ in ("_water_heater", "_water_care", "_keypad", "_ecomode", "_eco_mode", "_error_sensor", "_reminders_manager", "_reminders"):
            if k_ in attrs and attrs[k_] is None:
                attrs[k_] = mk(k_.strip("_").upper())
        me = Obj(c, attrs)
        members = [nm for nm, f in repo.all_methods(c).items() if f.is_property]
        bad = []
        first = {}
        for rnd in range(3):
            for nm in sorted(members):
                try:
                    interp.steps = 0
                    v = interp.getattr(me, nm)
                except (PyRaise, Undecided):
                    continue
                if not (isinstance(v, list) and all(isinstance(x, Obj) for x in v)):
                    continue
                n += 1
                ids = [id(x) for x in v]
                if nm in first and first[nm] != ids:
                    bad.append((nm, f"read {rnd + 1} gives {[x.attrs.get('key') for x in v]}, the first read gave {len(first[nm])} devices"))
                first.setdefault(nm, ids)
            for k, v0 in stores.items():
                now = me.attrs.get(k)
                if not (isinstance(now, list) and [id(x) for x in now] == [id(x) for x in v0]):
                    bad.append((k, f"after round {rnd + 1} of reads holds {[x.attrs.get('key') for x in now] if isinstance(now, list) else now!r}, the scan left {[x.attrs.get('key') for x in v0]}"))
            if bad:
                break
        ctx.ob(rule, f"{fcls}::device-lists-unchanged-by-reads", not bad,
               f"{fcls}: reading the members that return devices changes the inventory: " + "; ".join(f"{a}: {b}" for a, b in bad[:3]) +
               " - a member that extends or re-orders the list it returns files devices under the wrong kind and lists them more than once", c.loc if hasattr(c, "loc") else None,
               sample={"rule": rule, "facade": fcls, "device-list reads": n})
    ctx.floor(rule, "device-list reads on the model facades", n, 20)


def periodic_update_survives_unanswered_requests(ctx, repo, rule):
    """the same pass with the REAL connection object (built by its constructor, connected, answering pings) whose protocol
    answers none of the requests the pass makes (water care, reminders: retries used up), and the real water-care and
    reminders managers built by their constructors: whatever those queries return on failure, the pass must still reach
    the mode decision - set_config_mode(any pump or blower on) - and must not end the update task."""
    from .facts import ConnectionModel
    f = repo.method("GeckoAsyncFacade", "_facade_update")
    n = 0
    for pumps in ((True,), (False,)):
        cm = ConnectionModel(repo, connect=False)
        interp = cm.it
        got, sleeps = [], []
        inner = interp.call_hook

        def hook(it, node, callee, args, kwargs, got=got, sleeps=sleeps, inner=inner):
            fn = getattr(node, "func", None)
            nm = fn.id if isinstance(fn, ast.Name) else (fn.attr if isinstance(fn, ast.Attribute) else "")
            if nm == "set_config_mode":
                got.append(args[0] if args else kwargs.get("active"))
                return None
            if nm in ("config_sleep", "sleep"):
                sleeps.append(1)
                if len(sleeps) > 1:
                    raise PyRaise("asyncio.CancelledError", node)
                return None
            return NotImplemented       # every coroutine of the spa is interpreted (the connection model would only record it)
        interp.call_hook = hook
        spa = cm.spa
        spa.attrs["_protocol"] = Obj(None, {"get": Native(lambda a, k: None, "get")}, name="protocol")     # nobody answers
        interp.attr_hook = lambda _i, b, a_: (True if (b is spa and a_ in ("is_connected", "is_responding_to_pings", "isopen")) else NotImplemented)
        mk = lambda on: Obj(None, {"is_on": on}, name="device")  # noqa: E731
        attrs = init_defaults(repo, "GeckoAsyncFacade")
        taskman = Obj(None, {"add_task": Native(lambda a, k: None, "add_task"), "cancel_key_tasks": Native(lambda a, k: None, "cancel_key_tasks"),
                             "unique_id": "SPA-ID", "spa_name": "My spa", "name": "My spa"}, name="taskman")
        attrs.update({"_pumps": [mk(x) for x in pumps], "_blowers": [], "_lights": [mk(True)], "_spa": spa, "_taskman": taskman})
        me = Obj(repo.cls("GeckoAsyncFacade"), attrs)
        try:
            for attr_, cname_ in (("_water_care", "GeckoWaterCare"), ("_reminders_manager", "GeckoReminders")):
                me.attrs[attr_] = interp.apply(ClassRef(repo.cls(cname_)), [me], {})
            interp.steps = 0
            interp.call(f, me, [])
            outcome = None
        except PyRaise as e:
            outcome = None if "CancelledError" in e.what else e.what
        except Undecided as e:
            raise AnalysisError(f"{f.qual} on the model facade with a real connection whose requests go unanswered: {e}")
        want = any(pumps)
        n += 1
        ctx.ob(rule, f"{f.qual}::requests-unanswered::pumps={list(pumps)}", outcome is None and got and all(isinstance(g, bool) and g == want for g in got),
               f"{f.qual}, one pass with pumps on={list(pumps)} while the spa answers pings but none of the pass's requests: outcome {outcome!r}, configuration switches {got} - expected the pass to go on to "
               f"set_config_mode({want}): a query result the managers cannot take ends the update task before the mode decision (a facade built while a pump runs never selects the active table)", f.loc,
               sample={"rule": rule, "pumps": list(pumps), "switches": [str(g) for g in got], "outcome": str(outcome)})
    ctx.floor(rule, "periodic-update passes with unanswered requests", n, 2)


def periodic_update_keeps_the_mode(ctx, repo, rule):
    """the facade's periodic update on a model facade (devices with fixed on/off states, a spa that answers pings or does
    not, water care and reminders stand-ins): one pass of the loop is interpreted (the second sleep ends it).  Whatever
    the pass does, every configuration switch it makes is set_config_mode(any pump or blower on) - the update may
    re-evaluate the mode, it may not decide it by anything else (a quiet spa, the time of day ...)."""
    f = repo.method("GeckoAsyncFacade", "_facade_update")
    n = 0
    for pumps, blowers in (((True,), ()), ((False,), (True,)), ((False, False), (False,)), ((), ())):
        for responding in (True, False):
            got, sleeps = [], []
            interp = Interp(repo, max_depth=10)

            def hook(it, node, callee, args, kwargs, got=got, sleeps=sleeps):
                fn = getattr(node, "func", None)
                nm = fn.id if isinstance(fn, ast.Name) else (fn.attr if isinstance(fn, ast.Attribute) else "")
                if nm == "set_config_mode":
                    got.append(args[0] if args else kwargs.get("active"))
                    return None
                if nm in ("config_sleep", "sleep"):
                    sleeps.append(1)
                    if len(sleeps) > 1:
                        raise PyRaise("asyncio.CancelledError", node)
                    return None
                return NotImplemented
            interp.call_hook = hook
            mk = lambda on: Obj(None, {"is_on": on}, name="device")  # noqa: E731
            attrs = init_defaults(repo, "GeckoAsyncFacade")
            spa = Obj(None, {"is_responding_to_pings": responding, "is_connected": True, "async_get_watercare": Native(lambda a, k: 1, "async_get_watercare"),
                             "async_get_reminders": Native(lambda a, k: [], "async_get_reminders")}, name="spa")
            sink = lambda nm: Obj(None, {"change_watercare_mode": Native(lambda a, k: None), "change_reminders": Native(lambda a, k: None)}, name=nm)  # noqa: E731
            attrs.update({"_pumps": [mk(x) for x in pumps], "_blowers": [mk(x) for x in blowers], "_lights": [mk(True)], "_spa": spa,
                          "_water_care": sink("water-care"), "_reminders_manager": sink("reminders")})
            me = Obj(repo.cls("GeckoAsyncFacade"), attrs)
            try:
                interp.call(f, me, [])
            except PyRaise as e:
                if "CancelledError" not in e.what:
                    got.append(f"raises {e.what}")
            except Undecided as e:
                raise AnalysisError(f"{f.qual} on the model facade: {e}")
            want = any(pumps) or any(blowers)
            n += 1
            ok = all(isinstance(g, bool) and g == want for g in got) and (not responding or len(got) >= 1)
            ctx.ob(rule, f"{f.qual}::pumps={list(pumps)}::blowers={list(blowers)}::responding={responding}", ok,
                   f"{f.qual}, one pass with pumps on={list(pumps)}, blowers on={list(blowers)}, spa {'answering' if responding else 'not answering'} pings: configuration switches {got} - "
                   f"expected only set_config_mode({want}) (and at least one while the spa answers): the facade selects the active table exactly when some pump or blower is on", f.loc,
                   sample={"rule": rule, "pumps": list(pumps), "blowers": list(blowers), "responding": responding, "switches": [str(g) for g in got]} if n % 3 == 1 else None)
    ctx.floor(rule, "periodic-update passes interpreted", n, 8)


# ------------------------------------------------------------------------------------------------ C13.R1/R2
def switch_commands(ctx, repo, rule_idle, rule_one):
    cls = repo.cls("GeckoSwitch")
    n = 0
    for keypad in (0, 7):
        for typ, on_val, off_val in (("Bool", True, False), ("Enum", "HI", "OFF")):
            for is_on in (True, False):
                for meth, want_on in (("turn_on", True), ("turn_off", False), ("async_turn_on", True), ("async_turn_off", False)):
                    rec = Rec()
                    accs = {"StateKey": accessor(rec, "StateKey", on_val if is_on else off_val, typ), "Other": accessor(rec, "Other", "OFF")}
                    fac, spa = model_facade(rec, accs)
                    interp = Interp(repo, max_depth=12)
                    try:
                        sw = interp.apply(ClassRef(cls), [fac, "DEV", ("Device", keypad, "StateKey", "SWITCH")], {})
                        rec.log.clear()
                        before = {k: a.attrs["value"] for k, a in accs.items()}
                        interp.steps = 0
                        interp.call(repo.method("GeckoSwitch", meth), sw, [])
                    except PyRaise as e:
                        ctx.ob(rule_one, f"GeckoSwitch.{meth}::keypad={keypad}::{typ}::on={is_on}", False, f"GeckoSwitch.{meth} raises {e.what}", repo.method("GeckoSwitch", meth).loc)
                        continue
                    except Undecided as e:
                        raise AnalysisError(f"GeckoSwitch.{meth}: cannot interpret: {e}")
                    cmds = _writes(rec, accs, before)
                    n += 1
                    loc_ = repo.method("GeckoSwitch", meth).loc
                    if is_on == want_on:
                        ctx.ob(rule_idle, f"GeckoSwitch.{meth}::keypad={keypad}::{typ}::already-there", cmds == [],
                               f"GeckoSwitch.{meth} on a device that is already {'on' if is_on else 'off'} (keypad {keypad}, {typ} state) sends {cmds}: the statement requires nothing to be sent", loc_)
                    else:
                        want = [("press", keypad)] if keypad != 0 else [("write", "StateKey", want_on)]
                        ctx.ob(rule_one, f"GeckoSwitch.{meth}::keypad={keypad}::{typ}::one-command", cmds == want,
                               f"GeckoSwitch.{meth} on a device that is {'on' if is_on else 'off'} (keypad {keypad}, {typ} state) sends {cmds}, expected exactly {want}", loc_,
                               sample={"rule": rule_one, "method": meth, "keypad": keypad, "type": typ, "commands": [str(c) for c in cmds]} if n % 6 == 1 else None)
    ctx.floor(rule_one, "switch command valuations", n, 32)


def device_on_states(ctx, repo, rule, T):
    """what "on" means for the devices that drive the mode: for every label list that the state item of a
    pump-class or blower-class DEVICES row has in any shipped table, and for Bool items, the device object built by
    its own constructor on a model spa must read is_on == (the state is not 'OFF' / the flag is set)"""
    from .facts import class_const
    DEV = class_const(repo, "GeckoConstants", "DEVICES")
    CLS = {class_const(repo, "GeckoConstants", "DEVICE_CLASS_PUMP"): "GeckoPump", class_const(repo, "GeckoConstants", "DEVICE_CLASS_BLOWER"): "GeckoBlower"}
    seen = {}
    for stem, m in sorted(T.modules.items()):
        for d, row in DEV.items():
            if len(row) < 4 or row[3] not in CLS:
                continue
            it = m.item(row[2])
            if it is None:
                continue
            labels = next((tuple(a) for a in it.args if isinstance(a, (list, tuple)) and all(isinstance(x, str) for x in a)), None)
            if it.ctor == "GeckoEnumStructAccessor" and labels:
                seen.setdefault((CLS[row[3]], "Enum", labels), (d, stem))
            elif it.ctor == "GeckoBoolStructAccessor":
                seen.setdefault((CLS[row[3]], "Bool", (False, True)), (d, stem))
    for cname in CLS.values():
        seen.setdefault((cname, "Bool", (False, True)), ("<bool item>", "-"))
    n = 0
    for (cname, typ, labels), (d, stem) in sorted(seen.items(), key=str):
        for state in labels:
            rec = Rec()
            accs = {"StateKey": accessor(rec, "StateKey", state, typ, list(labels)), "UdDEV": accessor(rec, "UdDEV", "OFF")}
            fac, _spa = model_facade(rec, accs)
            interp = Interp(repo, max_depth=12)
            args = [fac, "DEV", ("Device", 3, "StateKey", "X")] + ([{"demand": "UdDEV", "options": ["OFF", "ON"]}] if cname == "GeckoPump" else [])
            try:
                dev = interp.apply(ClassRef(repo.cls(cname)), args, {})
                interp.steps = 0
                got = interp.getattr(dev, "is_on")
            except PyRaise as e:
                got = f"raises {e.what}"
            except Undecided as e:
                raise AnalysisError(f"{cname}.is_on: cannot interpret: {e}")
            want = (state != "OFF") if typ == "Enum" else bool(state)
            n += 1
            ctx.ob(rule, f"{cname}.is_on::{typ}::{'/'.join(map(str, labels))}::{state}", isinstance(got, bool) and got == want,
                   f"{cname}.is_on reads {got!r} for a device whose state item (labels {list(labels)}, as for {d} in {stem}) reads {state!r}; expected {want}: "
                   f"a running {'waterfall / pump' if cname == 'GeckoPump' else 'blower'} must count as on when the facade chooses between the active and the idle timing table",
                   repo.method(cname, "is_on").loc, sample={"rule": rule, "class": cname, "labels": list(labels), "state": state, "is_on": str(got)} if n % 3 == 1 else None)
    ctx.floor(rule, "device state valuations", n, 8)


# ------------------------------------------------------------------------------------------------ C12 scan
DEVICE_CLASSES = ("GeckoPump", "GeckoBlower", "GeckoLight", "GeckoSensor", "GeckoBinarySensor", "GeckoErrorSensor", "GeckoSwitch")

# device / demand order of a shipped log table (inyt-log-63): note L120 (a demand, but no DEVICES row) sits
# between the pumps and Waterfall, and LI comes last
TABLE_DEVICES = ["P1", "P2", "P3", "P4", "P5", "BL", "CP", "O3", "L120", "MSTR_HEATER", "SLV_HEATER", "Waterfall", "LockMode", "DealerLockStatus", "LI"]
TABLE_DEMANDS = ["UdP1", "UdP2", "UdP3", "UdP4", "UdP5", "UdPumpTime", "UdBL", "UdL120", "UdWaterfall", "UdLI", "UdLightTime"]
WIRINGS = {
    "typical": {"Out1": "P1H", "Out1A": "P1L", "Out2": "P2H", "Out3": "NA", "Out4": "BL", "Out5": "Waterfall", "OutLi": "LI", "Out6": "L120", "Out7": "O3", "HeatPumpFuse": "Line1"},
    "nothing": {"Out1": "NA", "Out2": "NA", "OutLi": "NA"},
    "reversed": {"Out1": "LI", "Out2": "Waterfall", "Out3": "BL", "Out4": "P5H", "Out5": "P2H", "Out6": "P1H"},
    "same-pump-thrice": {"Out1": "P1H", "Out2": "P1L", "Out3": "P1H", "OutLi": "NA"},
    "light-only": {"Out1": "NA", "OutLi": "LI"},
    "fuse-is-not-a-light": {"Out1": "P1H", "HeatPumpFuse": "Line1", "OutLi": "NA", "Out2": "blower", "Out3": "p2h"},
}


def _scan(repo, cname, fname, wiring, demands):
    rec = Rec()
    built = []
    accs = {}
    for out, label in wiring.items():
        accs[out] = accessor(rec, out, label, "Enum", ["NA", label])
    for ud in demands:
        accs[ud] = accessor(rec, ud, "OFF", "Enum", ["OFF", f"{ud}-ON"])
    DEV = class_const(repo, "GeckoConstants", "DEVICES")
    for row in DEV.values():
        accs.setdefault(row[2], accessor(rec, row[2], "OFF"))
    sens = class_const(repo, "GeckoConstants", "SENSORS")
    bsens = class_const(repo, "GeckoConstants", "BINARY_SENSORS")
    present_s = [s for i, s in enumerate(sens) if i % 2 == 0]
    present_b = [s for i, s in enumerate(bsens) if i % 2 == 1]
    for s in present_s + present_b:
        accs.setdefault(s[1], accessor(rec, s[1], 1, "Byte"))
    eco = class_const(repo, "GeckoConstants", "KEY_ECON_ACTIVE")
    accs.setdefault(eco, accessor(rec, eco, False, "Bool"))
    struct = Obj(None, {"all_outputs": list(wiring), "all_devices": list(TABLE_DEVICES), "user_demands": list(demands), "accessors": accs}, name="struct")
    fcls = repo.cls(cname)
    fac, spa = model_facade(rec, accs, struct, fcls)
    for k_, v_ in init_defaults(repo, cname).items():
        fac.attrs.setdefault(k_, v_)
    interp = Interp(repo, max_depth=12)

    def hook(it, node, callee, args, kwargs):
        if isinstance(callee, ClassRef) and callee.cls.short in DEVICE_CLASSES:
            o = Obj(callee.cls, {"_args": list(args), "key": args[1] if len(args) > 1 and isinstance(args[1], str) else None}, name=callee.cls.short)
            built.append(o)
            return o
        return NotImplemented
    interp.call_hook = hook
    try:
        interp.call(repo.method(cname, fname), fac, [])
    except PyRaise as e:
        return {"raises": e.what}
    except Undecided as e:
        raise AnalysisError(f"{cname}.{fname}: cannot interpret: {e}")

    def view(lst):
        out = []
        for o in lst or []:
            a = o.attrs["_args"]
            out.append((o.cls.short, a[1] if len(a) > 1 else None, a[2] if len(a) > 2 else None, a[3] if len(a) > 3 else None))
        return out
    g = fac.attrs
    return {"pumps": view(g.get("_pumps")), "blowers": view(g.get("_blowers")), "lights": view(g.get("_lights")),
            "sensors": [(o.attrs["_args"][1], o.attrs["_args"][2].attrs["tag"] if isinstance(o.attrs["_args"][2], Obj) else None) for o in g.get("_sensors") or []],
            "binary_sensors": [(o.attrs["_args"][1], o.attrs["_args"][2].attrs["tag"] if isinstance(o.attrs["_args"][2], Obj) else None) for o in g.get("_binary_sensors") or []],
            "eco": g.get("_ecomode") is not None, "present_s": present_s, "present_b": present_b, "accs": accs}


def _oracle(repo, wiring, demands, with_demand_for_all=False):
    """the statement, directly: wired devices (some output label starts with the device key), with a
    Ud<device> demand, known to DEVICES, each once, in table order; class from the DEVICES row"""
    DEV = class_const(repo, "GeckoConstants", "DEVICES")
    P, B, L = (class_const(repo, "GeckoConstants", c) for c in ("DEVICE_CLASS_PUMP", "DEVICE_CLASS_BLOWER", "DEVICE_CLASS_LIGHT"))
    labels = [v for v in wiring.values() if v != "NA"]
    out = {"pumps": [], "blowers": [], "lights": []}
    for d in TABLE_DEVICES:
        if not any(v.startswith(d) for v in labels):
            continue
        ud = next((u for u in demands if u.upper() == f"UD{d}".upper()), None)
        if ud is None or d not in DEV:
            continue
        row = DEV[d]
        if row[3] == P:
            out["pumps"].append(("GeckoPump", d, row, {"demand": ud, "options": ["OFF", f"{ud}-ON"]}))
        elif row[3] == B:
            out["blowers"].append(("GeckoBlower", d, row, {"demand": ud, "options": ["OFF", f"{ud}-ON"]} if with_demand_for_all else None))
        elif row[3] == L:
            out["lights"].append(("GeckoLight", d, row, {"demand": ud, "options": ["OFF", f"{ud}-ON"]} if with_demand_for_all else None))
    return out


def shipped_output_wirings(repo):
    """wirings over the output NAMES the shipped tables use: every output item whose label list (in some shipped table)
    offers a user device is wired to one - the heater output that can carry pump 1 (`OutHtr`: 'P1H' in 26 configs), the
    lettered and IO outputs included.  Which output carries a label must not matter to the inventory."""
    from .packs import tables
    T = tables(repo)
    user = ["P1", "P2", "P3", "P4", "P5", "BL", "Waterfall", "LI"]
    offers = {}
    for _stem, m in sorted(T.modules.items()):
        for k in m.props.get("output_keys", []) or []:
            it = next((i for i in m.items if i.key == k), None)
            if it is None:
                continue
            try:
                labs = T.geometry(it).get("items") or []
            except Exception:  # noqa: BLE001 - malformed items are C18's findings
                continue
            for l_ in labs:
                if any(l_.startswith(d) for d in user) and l_ not in offers.setdefault(k, []):
                    offers[k].append(l_)
    if len(offers) < 10:
        raise AnalysisError(f"only {len(offers)} shipped output names offer a user device - the pack tables were not read as expected")
    first = {k: v[0] for k, v in sorted(offers.items())}
    last = {k: v[-1] for k, v in sorted(offers.items())}
    out = {"shipped-output-names::first-offered": first, "shipped-output-names::last-offered": last}
    # one output at a time carries the only device: whichever output it is, the device is in the inventory
    for k, v in sorted(offers.items()):
        if not (k.startswith("Out") and k[3:].isdigit()):
            out[f"only::{k}={v[0]}"] = {"Out1": "NA", k: v[0]}
    return out


def inventory(ctx, repo, rule, scans):
    n = 0
    results = {}
    wirings = dict(WIRINGS)
    wirings.update(shipped_output_wirings(repo))
    ctx.count(f"{rule}:wirings over shipped output names", len(wirings) - len(WIRINGS))
    for wname, wiring in wirings.items():
        for dname, demands in (("all-demands", TABLE_DEMANDS), ("no-UdP2", [d for d in TABLE_DEMANDS if d != "UdP2"])):
            want = _oracle(repo, wiring, demands)
            for cname, fname in scans:
                got = _scan(repo, cname, fname, wiring, demands)
                results[(wname, dname, cname)] = {k: v for k, v in got.items() if k in ("pumps", "blowers", "lights", "sensors", "binary_sensors", "eco", "raises")}
                loc_ = repo.method(cname, fname).loc
                if "raises" in got:
                    ctx.ob(rule, f"{cname}.{fname}::{wname}::{dname}", False, f"{cname}.{fname} raises {got['raises']} on wiring {wiring}", loc_)
                    continue
                for kind in ("pumps", "blowers", "lights"):
                    n += 1
                    wd = {k: dm for _, k, _, dm in want["pumps"]}
                    alld = _oracle(repo, wiring, demands, with_demand_for_all=True)
                    okd = {k: dm for kk in ("pumps", "blowers", "lights") for _, k, _, dm in alld[kk]}
                    # the demand argument is part of the statement for pumps; other classes may or may not be given theirs
                    g = [(c, k, tuple(r) if r is not None else None, (dm if (kind == "pumps" or (dm is not None and dm != okd.get(k))) else None)) for c, k, r, dm in got[kind]]
                    w = [(c, k, tuple(r), dm) for c, k, r, dm in want[kind]]
                    ctx.ob(rule, f"{cname}.{fname}::{wname}::{dname}::{kind}", g == w,
                           f"{cname}.{fname}: outputs {wiring} with demands {'(all)' if dname == 'all-demands' else '(UdP2 missing)'} give {kind} "
                           f"{[(c, k) for c, k, _, _ in g]}{'' if [(c, k) for c, k, _, _ in g] != [(c, k) for c, k, _, _ in w] else ' with wrong DEVICES row / demand arguments'}, "
                           f"expected {[(c, k) for c, k, _, _ in w]} (wired and demanded devices, once each, in table order, class per DEVICES row)",
                           loc_, sample={"rule": rule, "scan": f"{cname}.{fname}", "wiring": wname, "kind": kind, "devices": [k for _, k, _, _ in g]} if n % 7 == 1 else None)
                ws = [(s[0], s[1]) for s in got["present_s"]]
                wb = [(s[0], s[1]) for s in got["present_b"]]
                ctx.ob(rule, f"{cname}.{fname}::{wname}::{dname}::sensors", got["sensors"] == ws and got["binary_sensors"] == wb and got["eco"],
                       f"{cname}.{fname}: sensors for existing items are {got['sensors']} / {got['binary_sensors']} (eco switch {got['eco']}), expected {ws} / {wb} and the eco switch", loc_)
    ctx.floor(rule, "inventory lists compared with the statement", n, 50)
    return results
