"""Source normalisation: make private helpers introduced AFTER the audit transparent.

Rules anchor on the public API and on the private names that existed in the audited
tree (baseline/private_names.txt).  A later clean-up that extracts a few lines into a
new private helper (`_start_spa_tasks`, `_restart_segment_collection`, `_is_celsius`,
`_claim_datagram`, ...) or a private property must not move a verdict, so every call to
such a NEW private helper defined in the same class / module is inlined into its
callers before any rule looks at the function:

  * single-expression helpers and private properties are substituted as expressions;
  * other helpers are converted to single-exit form (early returns become if/else
    chains assigning a result variable) and spliced in as statements at statement-level
    call sites (`h()`, `x = h()`, `return h()`, with or without `await`);
  * parameters are substituted by simple argument expressions or bound by assignment;
    helper locals are renamed when they clash.

Helpers with returns inside loops/try/with, `*args/**kwargs`, `super()`, `yield`,
recursion, or that are called in a way not listed above are left alone.
Awaits are preserved in place, so suspension structure is unchanged.
"""
from __future__ import annotations

import ast
import copy
from pathlib import Path

_BASE = None


def baseline_names():
    global _BASE
    if _BASE is None:
        p = Path(__file__).resolve().parent.parent / "baseline" / "private_names.txt"
        _BASE = set(p.read_text().split()) if p.exists() else set()
    return _BASE


def _is_private_new(name):
    return name.startswith("_") and not name.startswith("__") and name not in baseline_names()


def _strip_doc(body):
    return [s for s in body if not (isinstance(s, ast.Expr) and isinstance(s.value, ast.Constant) and isinstance(s.value.value, str))]


def _simple(e):
    if isinstance(e, (ast.Name, ast.Constant)):
        return True
    if isinstance(e, ast.Attribute):
        return _simple(e.value)
    if isinstance(e, ast.Subscript):
        return _simple(e.value) and _simple(e.slice)
    return False


class _Helper:
    def __init__(self, node, kind, owner):
        self.node = node
        self.kind = kind  # 'method' | 'static' | 'function' | 'property'
        self.owner = owner  # class name or None
        self.name = node.name
        self.is_async = isinstance(node, ast.AsyncFunctionDef)
        a = node.args
        self.params = [p.arg for p in a.posonlyargs + a.args]
        if kind in ("method", "property") and self.params:
            self.params = self.params[1:]
        self.defaults = {}
        pos = [p.arg for p in a.posonlyargs + a.args]
        for p, d in zip(pos[len(pos) - len(a.defaults):], a.defaults):
            self.defaults[p] = d
        self.vararg = a.vararg.arg if a.vararg else None
        self.body = _strip_doc(node.body)
        self.expr = None
        core = [b for b in self.body if not isinstance(b, ast.Assert)]  # type-narrowing asserts in front of a one-line helper
        if len(core) == 1 and isinstance(core[0], ast.Return) and core[0].value is not None and core[0] is self.body[-1]:
            self.expr = core[0].value

    def ok(self):
        a = self.node.args
        if a.kwarg or a.kwonlyargs:
            return False
        if a.vararg and self.expr is None:
            return False  # *args only for single-expression helpers (bound to a tuple of the extra arguments)
        for n in ast.walk(self.node):
            if isinstance(n, (ast.Yield, ast.YieldFrom, ast.Nonlocal)):
                return False
            if isinstance(n, ast.Global) and n not in self.node.body:
                return False  # only function-level `global` declarations (moved to the caller when inlined)
            if isinstance(n, ast.Lambda):
                la = n.args
                if self.expr is None or la.args or la.posonlyargs or la.kwonlyargs or la.vararg or la.kwarg:
                    return False  # only parameterless thunks inside single-expression helpers
            if isinstance(n, (ast.FunctionDef, ast.AsyncFunctionDef, ast.ClassDef)) and n is not self.node:
                return False
            if isinstance(n, ast.Call) and isinstance(n.func, ast.Name) and n.func.id == "super":
                return False
            if isinstance(n, ast.Call) and self._is_self_call(n):
                return False  # recursion
        if not self.body:
            return False
        return self._returns_ok(self.body)

    def _is_self_call(self, call):
        f = call.func
        return (isinstance(f, ast.Attribute) and f.attr == self.name) or (isinstance(f, ast.Name) and f.id == self.name)

    def _returns_ok(self, stmts, in_block=False):
        """returns only at statement-list level or inside if/else chains"""
        for s in stmts:
            if isinstance(s, ast.Try) and not s.finalbody and any(isinstance(n, ast.Return) for n in ast.walk(s)):
                # returns at statement / if-else level of the try body, its handlers and its else are converted
                if not all(self._returns_ok(b, True) for b in [s.body, s.orelse] + [h.body for h in s.handlers]):
                    return False
                continue
            if isinstance(s, (ast.For, ast.AsyncFor, ast.While, ast.Try, ast.With, ast.AsyncWith)):
                if any(isinstance(n, ast.Return) for n in ast.walk(s)):
                    return False
            elif isinstance(s, ast.If):
                if not self._returns_ok(s.body, True) or not self._returns_ok(s.orelse, True):
                    return False
        return True


def _always_returns(stmts):
    for s in stmts:
        if isinstance(s, (ast.Return, ast.Raise)):
            return True
        if isinstance(s, ast.If) and s.orelse and _always_returns(s.body) and _always_returns(s.orelse):
            return True
        if isinstance(s, ast.Try) and not s.finalbody and (_always_returns(s.body) or (s.orelse and _always_returns(s.orelse))) \
                and all(_always_returns(h.body) for h in s.handlers):
            return True
    return False


def _has_return(stmts):
    return any(isinstance(n, ast.Return) for s in stmts for n in ast.walk(s))


def _single_exit(stmts, ret):
    """Convert a statement list with (if/else-level) returns into one without returns
    that assigns the result to variable `ret` (None = result unused)."""
    out = []
    for i, s in enumerate(stmts):
        rest = stmts[i + 1:]
        if isinstance(s, ast.Return):
            if ret is not None:
                out.append(ast.copy_location(ast.Assign(targets=[ast.Name(id=ret, ctx=ast.Store())],
                                                        value=s.value if s.value is not None else ast.Constant(value=None), lineno=s.lineno), s))
            elif s.value is not None and not _simple(s.value):
                out.append(ast.copy_location(ast.Expr(value=s.value), s))
            return out
        if isinstance(s, ast.Try) and not s.finalbody and _has_return([s]):
            # code after the try runs only when no branch returned: it moves into the `else` of the try
            # (body completed) and to the end of every handler that falls through
            b_ret = _always_returns(s.body)
            body = _single_exit(list(s.body), ret)
            orelse = [] if b_ret else _single_exit(list(s.orelse) + copy.deepcopy(rest), ret)
            handlers = []
            for h in s.handlers:
                h_ret = _always_returns(h.body)
                hb = _single_exit(list(h.body) + ([] if h_ret else copy.deepcopy(rest)), ret)
                handlers.append(ast.copy_location(ast.ExceptHandler(type=h.type, name=h.name, body=hb or [ast.Pass()]), h))
            out.append(ast.copy_location(ast.Try(body=body or [ast.Pass()], handlers=handlers, orelse=orelse, finalbody=[]), s))
            return out
        if isinstance(s, ast.If) and (_has_return(s.body) or _has_return(s.orelse)):
            b_ret, o_ret = _always_returns(s.body), _always_returns(s.orelse) if s.orelse else False
            body = _single_exit(s.body + ([] if b_ret else copy.deepcopy(rest)), ret)
            orelse = _single_exit(list(s.orelse) + ([] if o_ret else copy.deepcopy(rest)), ret)
            new = ast.copy_location(ast.If(test=s.test, body=body or [ast.Pass()], orelse=orelse), s)
            out.append(new)
            return out
        out.append(s)
    return out


class _Subst(ast.NodeTransformer):
    def __init__(self, mapping, rename):
        self.mapping = mapping
        self.rename = rename

    def visit_Call(self, node):
        self.generic_visit(node)
        # `f(*args)` where args was bound to a tuple of the caller's extra arguments
        new_args = []
        for a in node.args:
            if isinstance(a, ast.Starred) and isinstance(a.value, ast.Tuple):
                new_args.extend(a.value.elts)
            else:
                new_args.append(a)
        node.args = new_args
        return node

    def visit_Name(self, node):
        if node.id in self.mapping and isinstance(node.ctx, ast.Load):
            return copy.deepcopy(self.mapping[node.id])
        if node.id in self.rename:
            return ast.copy_location(ast.Name(id=self.rename[node.id], ctx=node.ctx), node)
        return node


def _stored_names(stmts):
    out = set()
    for s in stmts:
        for n in ast.walk(s):
            if isinstance(n, ast.Name) and isinstance(n.ctx, (ast.Store, ast.Del)):
                out.add(n.id)
            elif isinstance(n, ast.ExceptHandler) and n.name:
                out.add(n.name)
    return out


def _bind(helper, call):
    """-> (mapping param->expr for substitution, list of pre-assign stmts, rename) or None"""
    args = list(call.args)
    if any(isinstance(a, ast.Starred) for a in args) or any(k.arg is None for k in call.keywords):
        return None
    extra = None
    if len(args) > len(helper.params):
        if helper.vararg is None:
            return None
        extra = args[len(helper.params):]
        args = args[:len(helper.params)]
    bound = dict(zip(helper.params, args))
    if helper.vararg is not None:
        bound[helper.vararg] = ast.Tuple(elts=list(extra or []), ctx=ast.Load())
    for k in call.keywords:
        if k.arg in bound or k.arg not in helper.params:
            return None
        bound[k.arg] = k.value
    for p in helper.params:
        if p == helper.vararg:
            continue
        if p not in bound:
            if p in helper.defaults and isinstance(helper.defaults[p], ast.Constant):
                bound[p] = helper.defaults[p]
            else:
                return None
    return bound


class _Inliner(ast.NodeTransformer):
    """Inlines helpers into ONE function body."""

    def __init__(self, helpers, owner, fname):
        self.helpers = helpers  # name -> _Helper (already filtered to this class/module)
        self.owner = owner
        self.fname = fname
        self.count = 0
        self.used = set()
        self.counter = 0
        self.globals_needed = set()

    # ---- matching ----------------------------------------------------------
    def _match(self, call):
        if not isinstance(call, ast.Call):
            return None
        f = call.func
        h = None
        if isinstance(f, ast.Attribute) and isinstance(f.value, ast.Name) and f.value.id in ("self", "cls", self.owner or ""):
            h = self.helpers.get(f.attr)
            if h is not None and h.kind == "function":
                h = None
        elif isinstance(f, ast.Name):
            h = self.helpers.get(f.id)
            if h is not None and h.kind != "function":
                h = None
        if h is None or h.name == self.fname or h.kind == "property":
            return None
        return h

    # ---- expression-level --------------------------------------------------
    def visit_Call(self, node):
        self.generic_visit(node)
        # `(lambda: E)()` left behind by an inlined thunk factory
        if isinstance(node.func, ast.Lambda) and not node.args and not node.keywords:
            la = node.func.args
            if not (la.args or la.posonlyargs or la.kwonlyargs or la.vararg or la.kwarg):
                return node.func.body
        h = self._match(node)
        if h is None or h.expr is None or h.is_async:
            return node
        bound = _bind(h, node)
        if bound is None:
            return node
        stored = _stored_names(h.body)
        for p, a in bound.items():
            uses = sum(1 for n in ast.walk(h.expr) if isinstance(n, ast.Name) and n.id == p)
            if not _simple(a) and uses > 1:
                return node
            if p in stored:
                return node
        self.count += 1
        self.used.add(h.name)
        new = _Subst(bound, {}).visit(copy.deepcopy(h.expr))
        self.depth = getattr(self, "depth", 0) + 1
        try:
            if self.depth < 6:
                new = self.visit(new)  # helper calls inside the substituted expression
        finally:
            self.depth -= 1
        return ast.copy_location(new, node)

    def visit_Attribute(self, node):
        self.generic_visit(node)
        if isinstance(node.ctx, ast.Load) and isinstance(node.value, ast.Name) and node.value.id == "self":
            h = self.helpers.get(node.attr)
            if h is not None and h.kind == "property" and h.expr is not None and h.name != self.fname:
                self.count += 1
                self.used.add(h.name)
                return ast.copy_location(copy.deepcopy(h.expr), node)
        return node

    # ---- statement-level ---------------------------------------------------
    def _splice(self, stmt):
        """If stmt is a statement-level call of a statement-inlinable helper return the
        replacement statement list, else None."""
        val = None
        kind = None
        if isinstance(stmt, ast.Expr):
            val, kind = stmt.value, "expr"
        elif isinstance(stmt, ast.Assign) and len(stmt.targets) == 1:
            val, kind = stmt.value, "assign"
        elif isinstance(stmt, ast.AnnAssign) and stmt.value is not None:
            val, kind = stmt.value, "annassign"
        elif isinstance(stmt, ast.Return) and stmt.value is not None:
            val, kind = stmt.value, "return"
        if val is None:
            return None
        awaited = isinstance(val, ast.Await)
        call = val.value if awaited else val
        h = self._match(call)
        if h is None or h.expr is not None and not h.is_async:
            return None  # expression helpers are handled by visit_Call
        if h.is_async != awaited:
            return None
        bound = _bind(h, call)
        if bound is None:
            return None
        self.counter += 1
        stored = _stored_names(h.body)
        mapping, pre, rename = {}, [], {}
        for p, a in bound.items():
            if _simple(a) and p not in stored:
                mapping[p] = a
            else:
                nm = f"{p}__{h.name.strip('_')}{self.counter}"
                rename[p] = nm
                pre.append(ast.copy_location(ast.Assign(targets=[ast.Name(id=nm, ctx=ast.Store())], value=a, lineno=stmt.lineno), stmt))
        for nme in stored:
            if nme not in bound:
                rename[nme] = f"{nme}__{h.name.strip('_')}{self.counter}"
        need_value = kind in ("assign", "annassign", "return") or False
        ret = f"ret__{h.name.strip('_')}{self.counter}" if need_value else None
        body = copy.deepcopy(h.body)
        for gs in [b for b in body if isinstance(b, ast.Global)]:
            self.globals_needed.update(gs.names)
        body = [b for b in body if not isinstance(b, ast.Global)]
        for nm in list(rename):
            if nm in self.globals_needed:
                del rename[nm]  # module globals keep their name
        body = [_Subst(mapping, rename).visit(s) for s in body]
        body = _single_exit(body, ret)
        out = list(pre)
        if ret is not None and not _always_returns(h.body):
            out.append(ast.copy_location(ast.Assign(targets=[ast.Name(id=ret, ctx=ast.Store())], value=ast.Constant(value=None), lineno=stmt.lineno), stmt))
        out.extend(body)
        # forward the result; collapse `ret = e; x = ret` when the body ends with the assignment
        if kind == "assign":
            out.append(ast.copy_location(ast.Assign(targets=stmt.targets, value=ast.Name(id=ret, ctx=ast.Load()), lineno=stmt.lineno), stmt))
        elif kind == "annassign":
            out.append(ast.copy_location(ast.AnnAssign(target=stmt.target, annotation=stmt.annotation, value=ast.Name(id=ret, ctx=ast.Load()), simple=stmt.simple), stmt))
        elif kind == "return":
            out.append(ast.copy_location(ast.Return(value=ast.Name(id=ret, ctx=ast.Load())), stmt))
        out = _collapse(out, ret)
        self.count += 1
        self.used.add(h.name)
        return out

    def _hoist(self, stmt):
        """A statement-level expression that contains exactly one call of a statement
        helper in *argument position* of an otherwise side-effect-free prefix
        (`super()._set_value(self._h(x))`, `lst.append(_h(a, i))`, `await f(self._h(x))`):
        hoist it into a temporary so that `_splice` can inline it."""
        is_if = isinstance(stmt, ast.If)
        if not isinstance(stmt, (ast.Expr, ast.Assign, ast.Return, ast.AnnAssign, ast.AugAssign, ast.If)):
            return None
        root = stmt.test if is_if else stmt.value
        if root is None:
            return None
        cands = []
        for n in ast.walk(root):
            c = n.value if isinstance(n, ast.Await) else n
            h = self._match(c) if isinstance(c, ast.Call) else None
            if h is not None and not (h.expr is not None and not h.is_async) and (h.is_async == isinstance(n, ast.Await)):
                if not isinstance(n, ast.Await) and any(isinstance(p, ast.Await) and p.value is n for p in ast.walk(root)):
                    continue
                cands.append(n)
        if len(cands) != 1 or (cands[0] is root and not is_if):
            return None
        target = cands[0]
        # everything evaluated before `target` must be free of calls (except super())
        def before_ok(node):
            if node is target:
                return True, True
            if isinstance(node, ast.Call):
                parts = [node.func] + list(node.args) + [k.value for k in node.keywords]
            elif isinstance(node, ast.Await):
                parts = [node.value]
            elif isinstance(node, (ast.Attribute, ast.Starred)):
                parts = [node.value]
            elif isinstance(node, (ast.Tuple, ast.List)):
                parts = list(node.elts)
            elif isinstance(node, ast.BinOp):
                parts = [node.left, node.right]
            elif isinstance(node, ast.Compare):
                parts = [node.left] + list(node.comparators)
            elif isinstance(node, ast.UnaryOp):
                parts = [node.operand]
            elif isinstance(node, ast.NamedExpr):
                parts = [node.value]
            elif isinstance(node, ast.BoolOp):
                parts = [node.values[0]]  # only the first operand is evaluated unconditionally
            else:
                return True, False
            for pt in parts:
                ok, found = before_ok(pt)
                if not ok:
                    return False, False
                if found:
                    return True, True
                for x in ast.walk(pt):
                    if isinstance(x, ast.Call) and not (isinstance(x.func, ast.Name) and x.func.id == "super"):
                        return False, False
            return True, False

        ok, found = before_ok(root)
        if not ok or not found:
            return None
        self.counter += 1
        tmp = f"hv__{self.counter}"
        pre = ast.copy_location(ast.Assign(targets=[ast.Name(id=tmp, ctx=ast.Store())], value=target, lineno=stmt.lineno), stmt)

        class R(ast.NodeTransformer):
            def visit(self_, node):
                if node is target:
                    return ast.copy_location(ast.Name(id=tmp, ctx=ast.Load()), node)
                return super().visit(node)

        new_stmt = copy.copy(stmt)
        if is_if:
            new_stmt.test = ast.copy_location(ast.Name(id=tmp, ctx=ast.Load()), root) if target is root else R().visit(root)
        else:
            new_stmt.value = R().visit(root)
        rep = self._splice(pre)
        if rep is None:
            return None
        # collapse `tmp = e` + use when the helper ended in a plain expression
        if rep and isinstance(rep[-1], ast.Assign) and isinstance(rep[-1].targets[0], ast.Name) and rep[-1].targets[0].id == tmp:
            val = rep[-1].value
            uses = [n for n in ast.walk(new_stmt) if isinstance(n, ast.Name) and n.id == tmp]
            if len(uses) == 1:
                class R2(ast.NodeTransformer):
                    def visit_Name(self_, node):
                        return val if node.id == tmp and isinstance(node.ctx, ast.Load) else node
                new_stmt = R2().visit(new_stmt)
                rep = rep[:-1]
        return rep + [new_stmt]

    def _block(self, stmts):
        out = []
        for s in stmts:
            rep = self._splice(s)
            if rep is None:
                rep = self._hoist(s)
            if rep is not None:
                for r in rep:
                    out.append(self.visit(r))
            else:
                out.append(self.visit(s))
        return out

    def generic_visit(self, node):
        for fld in ("body", "orelse", "finalbody"):
            b = getattr(node, fld, None)
            if isinstance(b, list) and b and isinstance(b[0], ast.stmt):
                setattr(node, fld, self._block(b))
        if isinstance(node, ast.Try):
            for h in node.handlers:
                h.body = self._block(h.body)
        # visit the remaining (expression) children
        for field, value in ast.iter_fields(node):
            if field in ("body", "orelse", "finalbody", "handlers") and isinstance(value, list) and value and isinstance(value[0], (ast.stmt, ast.ExceptHandler)):
                continue
            if isinstance(value, list):
                newl = []
                for item in value:
                    if isinstance(item, ast.AST):
                        item = self.visit(item)
                    newl.append(item)
                setattr(node, field, newl)
            elif isinstance(value, ast.AST):
                setattr(node, field, self.visit(value))
        return node

    def visit_FunctionDef(self, node):
        return node  # nested defs untouched

    visit_AsyncFunctionDef = visit_FunctionDef
    visit_Lambda = lambda self, node: self.generic_visit(node)  # noqa: E731


def _collapse(stmts, ret):
    """`ret = e` immediately followed by `x = ret` / `return ret`  ->  `x = e` / `return e`"""
    if ret is None or len(stmts) < 2:
        return stmts
    a, b = stmts[-2], stmts[-1]
    if isinstance(a, ast.Assign) and len(a.targets) == 1 and isinstance(a.targets[0], ast.Name) and a.targets[0].id == ret:
        uses = sum(1 for s in stmts[:-2] for n in ast.walk(s) if isinstance(n, ast.Name) and n.id == ret)
        if uses <= 1:  # only the optional `ret = None` initialiser
            val = a.value
            if isinstance(b, ast.Assign) and isinstance(b.value, ast.Name) and b.value.id == ret:
                new = ast.copy_location(ast.Assign(targets=b.targets, value=val, lineno=b.lineno), b)
            elif isinstance(b, ast.Return) and isinstance(b.value, ast.Name) and b.value.id == ret:
                new = ast.copy_location(ast.Return(value=val), b)
            else:
                return stmts
            head = [s for s in stmts[:-2] if not (isinstance(s, ast.Assign) and isinstance(s.targets[0], ast.Name) and s.targets[0].id == ret)]
            return head + [new]
    return stmts


def _mentions(node, name):
    return any(isinstance(n, ast.Name) and n.id == name for n in ast.walk(node))


def _loop_to_comp(stmts):
    """`acc = []` immediately followed by `for x in IT: [if C:] acc.append(E)` (loops may
    nest, no else/break)  ->  `acc = [E for x in IT if C]`; likewise `d = {}` +
    `d[K] = V`  ->  dict comprehension.  Evaluation order is identical."""
    out = []
    i = 0
    while i < len(stmts):
        s = stmts[i]
        nxt = stmts[i + 1] if i + 1 < len(stmts) else None
        tgt = val = None
        if isinstance(s, ast.Assign) and len(s.targets) == 1 and isinstance(s.targets[0], ast.Name):
            tgt, val = s.targets[0].id, s.value
        elif isinstance(s, ast.AnnAssign) and isinstance(s.target, ast.Name) and s.value is not None:
            tgt, val = s.target.id, s.value
        made = None
        if tgt and isinstance(nxt, ast.For) and not nxt.orelse and (
                (isinstance(val, ast.List) and not val.elts) or (isinstance(val, ast.Dict) and not val.keys)):
            gens = []
            cur = nxt
            okp = True
            elt = None
            while True:
                if _mentions(cur.iter, tgt) or len(cur.body) != 1 or cur.orelse:
                    okp = False
                    break
                gen = ast.comprehension(target=cur.target, iter=cur.iter, ifs=[], is_async=0)
                gens.append(gen)
                b = cur.body[0]
                while isinstance(b, ast.If) and not b.orelse and len(b.body) == 1 and not _mentions(b.test, tgt):
                    gen.ifs.append(b.test)
                    b = b.body[0]
                if isinstance(b, ast.For):
                    cur = b
                    continue
                if isinstance(val, ast.List) and isinstance(b, ast.Expr) and isinstance(b.value, ast.Call) and isinstance(b.value.func, ast.Attribute) \
                        and b.value.func.attr == "append" and isinstance(b.value.func.value, ast.Name) and b.value.func.value.id == tgt \
                        and len(b.value.args) == 1 and not b.value.keywords and not _mentions(b.value.args[0], tgt):
                    elt = ast.ListComp(elt=b.value.args[0], generators=gens)
                elif isinstance(val, ast.Dict) and isinstance(b, ast.Assign) and len(b.targets) == 1 and isinstance(b.targets[0], ast.Subscript) \
                        and isinstance(b.targets[0].value, ast.Name) and b.targets[0].value.id == tgt and not _mentions(b.value, tgt) and not _mentions(b.targets[0].slice, tgt):
                    elt = ast.DictComp(key=b.targets[0].slice, value=b.value, generators=gens)
                else:
                    okp = False
                break
            if okp and elt is not None:
                if isinstance(s, ast.Assign):
                    made = ast.copy_location(ast.Assign(targets=s.targets, value=ast.copy_location(elt, nxt), lineno=s.lineno), s)
                else:
                    made = ast.copy_location(ast.AnnAssign(target=s.target, annotation=s.annotation, value=ast.copy_location(elt, nxt), simple=s.simple), s)
        if made is not None:
            out.append(made)
            i += 2
            continue
        # recurse into compound statements
        for fld in ("body", "orelse", "finalbody"):
            b = getattr(s, fld, None)
            if isinstance(b, list) and b and isinstance(b[0], ast.stmt) and not isinstance(s, (ast.FunctionDef, ast.AsyncFunctionDef, ast.ClassDef)):
                setattr(s, fld, _loop_to_comp(b))
        if isinstance(s, ast.Try):
            for h in s.handlers:
                h.body = _loop_to_comp(h.body)
        out.append(s)
        i += 1
    return out


def _forward_single_use(stmts):
    """`t = <comprehension>` immediately followed by a statement that uses `t` exactly once
    as a whole value (`self.x = t`, `return t`, `f(t)`), with `t` unused afterwards  ->  inline."""
    out = list(stmts)
    i = 0
    while i + 1 < len(out):
        s, n = out[i], out[i + 1]
        is_a = isinstance(s, ast.Assign) and len(s.targets) == 1 and isinstance(s.targets[0], ast.Name)
        is_ann = isinstance(s, ast.AnnAssign) and isinstance(s.target, ast.Name) and s.value is not None
        if (is_a or is_ann) and isinstance(s.value, (ast.ListComp, ast.DictComp)):
            t = s.targets[0].id if is_a else s.target.id
            uses_next = [x for x in ast.walk(n) if isinstance(x, ast.Name) and x.id == t and isinstance(x.ctx, ast.Load)]
            later = any(_mentions(x, t) for x in out[i + 2:])
            simple_next = isinstance(n, (ast.Assign, ast.Return, ast.Expr, ast.AnnAssign)) and not any(isinstance(x, (ast.Await,)) for x in ast.walk(n))
            if len(uses_next) == 1 and not later and simple_next and not any(isinstance(x, ast.Name) and x.id == t and isinstance(x.ctx, ast.Store) for x in ast.walk(n)):
                val = s.value

                class R(ast.NodeTransformer):
                    def visit_Name(self_, node):
                        return val if (node.id == t and isinstance(node.ctx, ast.Load)) else node

                out[i + 1] = R().visit(n)
                del out[i]
                continue
        i += 1
    return out


def _lower_return_ifexp(stmts):
    """`return A if C else B`  ->  `if C: return A` / `else: return B`  (recursively; the CFG-based rules
    then see the same branch structure whichever way the function was written)"""
    out = []
    for s in stmts:
        for fld in ("body", "orelse", "finalbody"):
            b = getattr(s, fld, None)
            if isinstance(b, list) and b and isinstance(b[0], ast.stmt) and not isinstance(s, (ast.FunctionDef, ast.AsyncFunctionDef, ast.ClassDef)):
                setattr(s, fld, _lower_return_ifexp(b))
        if isinstance(s, ast.Try):
            for h in s.handlers:
                h.body = _lower_return_ifexp(h.body)
        if isinstance(s, ast.Return) and isinstance(s.value, ast.IfExp):
            e = s.value
            new = ast.If(test=e.test,
                         body=_lower_return_ifexp([ast.copy_location(ast.Return(value=e.body), s)]),
                         orelse=_lower_return_ifexp([ast.copy_location(ast.Return(value=e.orelse), s)]))
            out.append(ast.copy_location(new, s))
        else:
            out.append(s)
    return out


def canonicalize_function(fn):
    fn.body = _lower_return_ifexp(fn.body)
    fn.body = _forward_single_use(_loop_to_comp(fn.body))
    for n in ast.walk(fn):
        for fld in ("body", "orelse", "finalbody"):
            b = getattr(n, fld, None)
            if n is not fn and isinstance(b, list) and b and isinstance(b[0], ast.stmt) and not isinstance(n, (ast.FunctionDef, ast.AsyncFunctionDef, ast.ClassDef)):
                setattr(n, fld, _forward_single_use(b))
    ast.fix_missing_locations(fn)


def _collect_helpers(funcs, kind_of, owner):
    out = {}
    for f in funcs:
        if not _is_private_new(f.name):
            continue
        decos = [ast.unparse(d) for d in f.decorator_list]
        if any(d.endswith(".setter") for d in decos):
            continue
        if "property" in decos:
            kind = "property"
        elif "staticmethod" in decos:
            kind = "static"
        elif decos:
            continue
        else:
            kind = kind_of
        h = _Helper(f, kind, owner)
        if h.ok() and (kind != "property" or h.expr is not None):
            out[f.name] = h
    return out


_PROPS = None


def baseline_property_attrs():
    global _PROPS
    if _PROPS is None:
        import json

        p = Path(__file__).resolve().parent.parent / "baseline" / "property_attrs.json"
        _PROPS = json.loads(p.read_text()) if p.exists() else {}
    return _PROPS


def attribute_renames(trees):
    """Private attributes that a simple public property exposed in the audited tree and that
    were since renamed: {new_name: audited_name}.  Decided over all modules at once; a rename
    is only mapped back when neither name is ambiguous."""
    base = baseline_property_attrs()
    audited_names = {a for props in base.values() for a in props.values()}
    ren = {}
    for tree in trees:
        for c in ast.walk(tree):
            if not isinstance(c, ast.ClassDef) or c.name not in base:
                continue
            for m in c.body:
                if isinstance(m, ast.FunctionDef) and m.name in base[c.name] and any(ast.unparse(d) == "property" for d in m.decorator_list):
                    body = _strip_doc(m.body)
                    if len(body) == 1 and isinstance(body[0], ast.Return) and isinstance(body[0].value, ast.Attribute) \
                            and isinstance(body[0].value.value, ast.Name) and body[0].value.value.id == "self":
                        new, old = body[0].value.attr, base[c.name][m.name]
                        if new != old and new.startswith("_") and new not in audited_names:
                            if ren.get(new, old) != old:
                                ren[new] = None  # ambiguous
                            else:
                                ren[new] = old
    return {k: v for k, v in ren.items() if v}


def apply_attribute_renames(tree, ren):
    if not ren:
        return 0
    n = 0
    for node in ast.walk(tree):
        if isinstance(node, ast.Attribute) and node.attr in ren:
            node.attr = ren[node.attr]
            n += 1
    return n


def _lower_walrus_tests(stmts):
    """`if (x := E) <op> ...:`  ->  `x = E` ; `if x <op> ...:`  when the walrus is the first thing the test
    evaluates (left operand of the comparison / operand of `not` / first operand of and-or / the whole test).
    `elif` arms are left alone (the assignment would move in front of the earlier tests)."""
    def first_walrus(e):
        if isinstance(e, ast.NamedExpr):
            return e
        if isinstance(e, ast.Compare):
            return first_walrus(e.left)
        if isinstance(e, ast.UnaryOp):
            return first_walrus(e.operand)
        if isinstance(e, ast.BoolOp):
            return first_walrus(e.values[0])
        return None

    out = []
    for s in stmts:
        for fld in ("body", "orelse", "finalbody"):
            b = getattr(s, fld, None)
            if isinstance(b, list) and b and isinstance(b[0], ast.stmt) and not isinstance(s, (ast.FunctionDef, ast.AsyncFunctionDef, ast.ClassDef)):
                setattr(s, fld, _lower_walrus_tests(b))
        if isinstance(s, ast.Try):
            for h in s.handlers:
                h.body = _lower_walrus_tests(h.body)
        w = first_walrus(s.test) if isinstance(s, ast.If) else None
        if w is not None and isinstance(w.target, ast.Name):
            out.append(ast.copy_location(ast.Assign(targets=[ast.Name(id=w.target.id, ctx=ast.Store())], value=w.value, lineno=s.lineno), s))

            class R(ast.NodeTransformer):
                def visit_NamedExpr(self_, node):
                    if node is w:
                        return ast.copy_location(ast.Name(id=w.target.id, ctx=ast.Load()), node)
                    return self_.generic_visit(node)
            s.test = R().visit(s.test)
            out.append(s)
        else:
            out.append(s)
    return out


def _module_dicts(tree):
    """module-level NAME = {K: V, ...} displays whose keys are constants / dotted names, bound exactly once"""
    out, count = {}, {}
    for st in tree.body:
        tg, val = None, None
        if isinstance(st, ast.Assign) and len(st.targets) == 1 and isinstance(st.targets[0], ast.Name):
            tg, val = st.targets[0].id, st.value
        elif isinstance(st, ast.AnnAssign) and isinstance(st.target, ast.Name) and st.value is not None:
            tg, val = st.target.id, st.value
        if tg is None:
            continue
        count[tg] = count.get(tg, 0) + 1
        if isinstance(val, ast.Dict) and val.keys and all(k is not None and _simple(k) for k in val.keys):
            out[tg] = val
    for n in ast.walk(tree):  # written anywhere else (D[k] = v, D.update, del) -> not a constant table
        if isinstance(n, ast.Subscript) and isinstance(n.ctx, (ast.Store, ast.Del)) and isinstance(n.value, ast.Name):
            out.pop(n.value.id, None)
        if isinstance(n, ast.Call) and isinstance(n.func, ast.Attribute) and isinstance(n.func.value, ast.Name) \
                and n.func.attr in ("update", "pop", "setdefault", "clear", "popitem"):
            out.pop(n.func.value.id, None)
    return {k: v for k, v in out.items() if count.get(k) == 1}


def _lower_dict_dispatch(stmts, dicts):
    """`if X in D: ... D[X] ...` over a constant module-level table D  ->  `if X == K1: ... V1 ... elif X == K2: ...`
    (what the ladder looked like before somebody tabulated it; rules read ladders)"""
    out = []
    for s in stmts:
        for fld in ("body", "orelse", "finalbody"):
            b = getattr(s, fld, None)
            if isinstance(b, list) and b and isinstance(b[0], ast.stmt) and not isinstance(s, (ast.FunctionDef, ast.AsyncFunctionDef, ast.ClassDef)):
                setattr(s, fld, _lower_dict_dispatch(b, dicts))
        if isinstance(s, ast.Try):
            for h in s.handlers:
                h.body = _lower_dict_dispatch(h.body, dicts)
        t = s.test if isinstance(s, ast.If) else None
        if isinstance(t, ast.Compare) and len(t.ops) == 1 and isinstance(t.ops[0], ast.In) and isinstance(t.comparators[0], ast.Name) \
                and t.comparators[0].id in dicts and _simple(t.left):
            D = dicts[t.comparators[0].id]
            dname, xtext = t.comparators[0].id, ast.unparse(t.left)

            class R(ast.NodeTransformer):
                def __init__(self, val):
                    self.val = val

                def visit_Subscript(self, node):
                    self.generic_visit(node)
                    if isinstance(node.value, ast.Name) and node.value.id == dname and isinstance(node.ctx, ast.Load) and ast.unparse(node.slice) == xtext:
                        return copy.deepcopy(self.val)
                    return node

            chain = None
            for k, v in reversed(list(zip(D.keys, D.values))):
                body = [R(v).visit(copy.deepcopy(b)) for b in s.body]
                test = ast.Compare(left=copy.deepcopy(t.left), ops=[ast.Eq()], comparators=[copy.deepcopy(k)])
                node = ast.copy_location(ast.If(test=test, body=body, orelse=[chain] if chain is not None else list(s.orelse)), s)
                chain = node
            out.append(chain)
        else:
            out.append(s)
    return out


def imported_private_helpers(tree: ast.Module, path, renames=None):
    """Module-level helper functions that did not exist at the audited commit and that `tree` imports from a sibling
    module of the package (`from .x import _helper`): [(copy of the normalised FunctionDef, ImportFrom level, module
    name, names bound at the home module's top level)].  The home module is parsed and normalised on its own."""
    from pathlib import Path
    out = []
    path = Path(path)
    for st in tree.body:
        if not isinstance(st, ast.ImportFrom) or st.level < 1 or not st.module:
            continue
        names = [a.name for a in st.names if a.asname in (None, a.name) and _is_private_new(a.name)]
        if not names:
            continue
        base = path.parent
        for _ in range(st.level - 1):
            base = base.parent
        home = base.joinpath(*st.module.split("."))
        home = home.with_suffix(".py") if home.with_suffix(".py").is_file() else home / "__init__.py"
        if not home.is_file():
            continue
        try:
            htree = ast.parse(home.read_text(encoding="utf-8"))
        except SyntaxError:
            continue
        if renames:
            apply_attribute_renames(htree, renames)
        normalize_module(htree)
        bound = set()
        for hs in htree.body:
            if isinstance(hs, (ast.FunctionDef, ast.AsyncFunctionDef, ast.ClassDef)):
                bound.add(hs.name)
            elif isinstance(hs, ast.Assign):
                bound |= {t.id for t in hs.targets if isinstance(t, ast.Name)}
            elif isinstance(hs, ast.AnnAssign) and isinstance(hs.target, ast.Name):
                bound.add(hs.target.id)
            elif isinstance(hs, (ast.Import, ast.ImportFrom)):
                bound |= {(a.asname or a.name).split(".")[0] for a in hs.names}
        for hs in htree.body:
            if isinstance(hs, (ast.FunctionDef, ast.AsyncFunctionDef)) and hs.name in names:
                out.append((hs, st.level, st.module, bound))
    return out


def normalize_module(tree: ast.Module, imported=None):
    """In-place normalisation of a parsed module; returns (number of inlined call
    sites, set of helper qualnames that were inlined).  `imported`: helpers defined in sibling modules
    (imported_private_helpers) - they are inlined like local ones, and the names of their home module that the
    inlined bodies use are imported into this module."""
    total = 0
    used_all = set()
    for n in ast.walk(tree):
        if isinstance(n, (ast.FunctionDef, ast.AsyncFunctionDef)) and any(isinstance(x, ast.NamedExpr) for x in ast.walk(n)):
            n.body = _lower_walrus_tests(n.body)
            ast.fix_missing_locations(n)
    mod_funcs = [n for n in tree.body if isinstance(n, (ast.FunctionDef, ast.AsyncFunctionDef))]
    mod_helpers = _collect_helpers(mod_funcs, "function", None)
    foreign = {}
    for fnode, level, modname, bound in imported or ():
        h = _collect_helpers([fnode], "function", None)
        if fnode.name in h and fnode.name not in mod_helpers:
            mod_helpers[fnode.name] = h[fnode.name]
            foreign[fnode.name] = (fnode, level, modname, bound)

    def do_function(fn, helpers, owner):
        nonlocal total
        for _ in range(3):
            inl = _Inliner(helpers, owner, fn.name)
            fn.body = inl._block(fn.body)
            if inl.globals_needed:
                have = {nm for st in fn.body if isinstance(st, ast.Global) for nm in st.names}
                need = sorted(inl.globals_needed - have)
                if need:
                    at = 1 if fn.body and isinstance(fn.body[0], ast.Expr) and isinstance(fn.body[0].value, ast.Constant) else 0
                    fn.body.insert(at, ast.Global(names=need))
            total += inl.count
            for u in inl.used:
                used_all.add(f"{owner}.{u}" if owner and helpers[u].kind != "function" else u)
            if not inl.count:
                break
        ast.fix_missing_locations(fn)

    def do_class(c, outer_helpers):
        funcs = [n for n in c.body if isinstance(n, (ast.FunctionDef, ast.AsyncFunctionDef))]
        helpers = dict(outer_helpers)
        helpers.update(_collect_helpers(funcs, "method", c.name))
        if helpers:
            # helpers first, until nothing changes (a helper that calls a helper is flat before it is inlined itself:
            # its _Helper record is rebuilt from the normalised body), then everyone
            own = {k: v for k, v in helpers.items() if v.node in funcs}
            for _round in range(3):
                before = total
                for name in list(own):
                    h = helpers[name]
                    do_function(h.node, {k: v for k, v in helpers.items() if v.node is not h.node}, c.name)
                    fresh = _collect_helpers([h.node], "method", c.name)
                    if name in fresh:
                        helpers[name] = fresh[name]
                if total == before:
                    break
            for f in funcs:
                do_function(f, {k: v for k, v in helpers.items() if v.node is not f}, c.name)
        for n in c.body:
            if isinstance(n, ast.ClassDef):
                do_class(n, mod_helpers)

    if mod_helpers:
        for _round in range(3):
            before = total
            for name in [n_ for n_, h_ in mod_helpers.items() if h_.node in mod_funcs]:
                h = mod_helpers[name]
                do_function(h.node, {k: v for k, v in mod_helpers.items() if v.node is not h.node}, None)
                fresh = _collect_helpers([h.node], "function", None)
                if name in fresh:
                    mod_helpers[name] = fresh[name]
            if total == before:
                break
        for f in mod_funcs:
            do_function(f, {k: v for k, v in mod_helpers.items() if v.node is not f}, None)
    for n in tree.body:
        if isinstance(n, ast.ClassDef):
            do_class(n, mod_helpers)
    # names of the home module that inlined foreign helper bodies refer to become imports of this module
    here = set()
    for st in tree.body:
        if isinstance(st, (ast.FunctionDef, ast.AsyncFunctionDef, ast.ClassDef)):
            here.add(st.name)
        elif isinstance(st, ast.Assign):
            here |= {t.id for t in st.targets if isinstance(t, ast.Name)}
        elif isinstance(st, ast.AnnAssign) and isinstance(st.target, ast.Name):
            here.add(st.target.id)
        elif isinstance(st, (ast.Import, ast.ImportFrom)):
            here |= {(a.asname or a.name).split(".")[0] for a in st.names}
    for name in sorted(used_all & set(foreign)):
        fnode, level, modname, bound = foreign[name]
        free = {n.id for n in ast.walk(fnode) if isinstance(n, ast.Name) and isinstance(n.ctx, ast.Load)}
        need = sorted((free & bound) - here)
        if need:
            tree.body.append(ast.ImportFrom(module=modname, names=[ast.alias(name=x, asname=None) for x in need], level=level))
            here |= set(need)
    ast.fix_missing_locations(tree)
    dicts = _module_dicts(tree)
    for n in ast.walk(tree):
        if isinstance(n, (ast.FunctionDef, ast.AsyncFunctionDef)):
            if dicts:
                n.body = _lower_dict_dispatch(n.body, dicts)
            canonicalize_function(n)
    return total, used_all
