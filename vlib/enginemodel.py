"""Threaded engine by interpretation: a GeckoUdpSocket is built by its own constructor around a model OS
socket, with a controlled clock; queue_send / _process_send_requests / dispatch_recevied_data are interpreted
(vlib.absint) with model handlers.  Obligations are about what goes out and who is called:

  FIFO            three queued sends leave in queue order, one per engine call
  throttle        no send while less than 1/RATE has passed since the previous send; at most one send per call
  first match     the first registered handler whose can_handle accepts gets handle() then handled(); handlers
                  registered later are not even asked; others get nothing
  isolation       a handler raising in handle(), or sendto raising, does not escape the engine call and does
                  not stop later calls
"""
from __future__ import annotations

from .absint import ClassRef, Interp, Native, Obj, Opaque, PyRaise, Undecided
from .core import AnalysisError

SOCK = "GeckoUdpSocket"


class Engine:
    def __init__(self, repo, sendto_raises=False):
        self.repo = repo
        self.clock = 0.0
        self.wire = []
        self.calls = []
        self.releases = 0
        self.on_release = None
        self._in_adversary = False
        self.interp = Interp(repo, max_depth=10)
        self.interp.call_hook = self._hook

        def sendto(a, k):
            if sendto_raises and not self.wire:
                self.wire.append(("raised",))
                raise PyRaise("OSError: network unreachable")
            self.wire.append((a[0], a[1], self.clock))
        self.os_sock = Obj(None, {"sendto": Native(sendto, "sendto"), "settimeout": Native(lambda a, k: None), "close": Native(lambda a, k: None)}, name="os-socket")
        try:
            self.obj = self.interp.apply(ClassRef(repo.cls(SOCK)), [self.os_sock], {})
        except (PyRaise, Undecided) as e:
            raise AnalysisError(f"{SOCK}(socket) cannot be constructed by interpretation: {e}")

    def _hook(self, interp, node, callee, args, kwargs):
        nm = getattr(callee, "name", "")
        if nm == "time.monotonic":
            return self.clock
        if nm in ("threading.Lock", "threading.RLock"):
            # a model lock: entering and leaving it is visible, and a scenario may act at a release point
            # (self.on_release) - that is where another thread can run
            def release(a, k):
                self.releases += 1
                if self.on_release is not None and not self._in_adversary:
                    self._in_adversary = True
                    try:
                        self.on_release(self.releases)
                    finally:
                        self._in_adversary = False
            return Obj(None, {"__enter__": Native(lambda a, k: None, "acquire"), "__exit__": Native(release, "release"),
                              "acquire": Native(lambda a, k: True, "acquire"), "release": Native(release, "release")}, name=nm)
        if nm.startswith("threading."):
            return Obj(None, name=nm)
        return NotImplemented

    def handler(self, name, can=True, raises=False):
        h = Obj(None, {"send_bytes": name.encode(), "last_destination": None, "should_remove_handler": False}, name=name)

        def can_handle(a, k):
            self.calls.append((name, "can_handle"))
            return can(a[0]) if callable(can) else can

        def handle(a, k):
            self.calls.append((name, "handle"))
            if raises:
                raise PyRaise("RuntimeError: handler bug")
        h.attrs["can_handle"] = Native(can_handle, "can_handle")
        h.attrs["handle"] = Native(handle, "handle")
        h.attrs["handled"] = Native(lambda a, k: self.calls.append((name, "handled")), "handled")
        h.attrs["loop"] = Native(lambda a, k: None, "loop")
        return h

    def call(self, mname, *args):
        fi = self.repo.method(SOCK, mname)
        self.interp.steps = 0
        try:
            return self.interp.call(fi, self.obj, list(args))
        except Undecided as e:
            raise AnalysisError(f"{SOCK}.{mname}: cannot interpret: {e}")


def registration_survives_cleanup(ctx, repo, rule):
    """A handler registered by another thread while the engine thread retires a finished handler must still be
    registered afterwards.  The clean-up is interpreted once per lock-release point it passes; at that point (the
    only places where another thread can get the lock) the model registers a newcomer through add_receive_handler."""
    cu = repo.method(SOCK, "_cleanup_handlers")
    # how many release points does one clean-up pass?
    e = Engine(repo)
    done, alive = e.handler("done"), e.handler("alive", can=False)
    done.attrs["should_remove_handler"] = True
    for h in (done, alive):
        e.call("add_receive_handler", h)
    e.releases = 0
    try:
        e.call("_cleanup_handlers")
    except PyRaise as ex:
        ctx.ob(rule, f"{cu.qual}::does-not-raise", False, f"{cu.qual} raises {ex.what}", cu.loc)
        return
    points = e.releases
    ctx.floor(rule, f"{cu.qual} lock-release points", points, 1)
    n = 0
    for k in range(1, points + 1):
        e = Engine(repo)
        done, alive, new = e.handler("done"), e.handler("alive", can=False), e.handler("newcomer", can=True)
        done.attrs["should_remove_handler"] = True
        for h in (done, alive):
            e.call("add_receive_handler", h)
        e.releases = 0

        def adversary(i, e=e, new=new, k=k):
            if i == k:
                e.call("add_receive_handler", new)
        e.on_release = adversary
        try:
            e.call("_cleanup_handlers")
            e.on_release = None
            e.calls.clear()
            e.call("dispatch_recevied_data", b"<PACKT>for the newcomer</PACKT>", ("10.0.0.9", 10022))
            calls = list(e.calls)
        except PyRaise as ex:
            calls = [("raises", ex.what)]
        n += 1
        ctx.ob(rule, f"{cu.qual}::registration-at-release-{k}-survives", ("newcomer", "handle") in calls and ("done", "can_handle") not in calls,
               f"{cu.qual} retiring a finished handler while another thread registers a request right after the clean-up's lock release #{k}: the next datagram makes the calls {calls} - "
               f"{'the newly registered handler is gone (the list was rebuilt from a copy taken before it was added), its reply is dropped and the request can only time out' if ('newcomer', 'handle') not in calls else 'the finished handler is still asked'}",
               cu.loc, sample={"rule": rule, "release_point": k, "calls": [str(c) for c in calls]})
    ctx.count(f"{rule}:clean-up interleavings interpreted", n)


def engine_obligations(ctx, repo, r_fifo, r_throttle, r_first, r_iso):
    from .core import AnalysisError as _AE
    ps = repo.method(SOCK, "_process_send_requests")
    # the throttle gap by behaviour (a named constant, a literal, a computed value - whatever the code uses): after a send
    # at t, the smallest g for which a call at t+g sends the next queued request (bisection on the model clock, 1 us)

    def second_goes_out_after(g):
        e0 = Engine(repo)
        for i in range(2):
            e0.call("queue_send", e0.handler(f"p{i}"), ("10.0.0.%d" % i, 10022))
        e0.clock = 10.0
        e0.call("_process_send_requests")
        e0.clock = 10.0 + g
        e0.call("_process_send_requests")
        return len(e0.wire) == 2
    try:
        if second_goes_out_after(0.0):
            rate = float("inf")
        elif not second_goes_out_after(1.0):
            rate = 0.0
        else:
            lo, hi = 0.0, 1.0
            for _ in range(22):
                mid = (lo + hi) / 2
                if second_goes_out_after(mid):
                    hi = mid
                else:
                    lo = mid
            rate = round(1.0 / hi, 3)
    except PyRaise as ex:
        ctx.ob(r_iso, f"{ps.qual}::does-not-raise", False, f"{ps.qual} raises {ex.what}", ps.loc)
        return
    dr = repo.method(SOCK, "dispatch_recevied_data")
    ctx.ob(r_throttle, "throttle-rate::positive", isinstance(rate, (int, float)) and 0 < rate < float("inf"),
           f"two queued requests: the second leaves {'in the same instant as the first (no throttle at all)' if rate == float('inf') else 'not even a second after the first'} - observed rate {rate!r} per second", repo.cls(SOCK).loc,
           sample={"rule": r_throttle, "observed_rate_per_second": rate})
    if not (isinstance(rate, (int, float)) and 0 < rate < float("inf")):
        return
    gap = 1.0 / rate
    # ---- FIFO + one per call + throttle
    e = Engine(repo)
    hs = [e.handler(f"h{i}") for i in range(3)]
    dests = [("10.0.0.%d" % i, 10022) for i in range(3)]
    for h, d in zip(hs, dests):
        e.call("queue_send", h, d)
    e.clock = 10.0
    try:
        e.call("_process_send_requests")
        n1 = len(e.wire)
        e.call("_process_send_requests")            # same instant: throttled
        n2 = len(e.wire)
        e.clock = 10.0 + gap * 0.9
        e.call("_process_send_requests")            # still inside the gap
        n3 = len(e.wire)
        e.clock = 10.0 + gap * 1.1
        e.call("_process_send_requests")            # gap over -> second send
        n4 = len(e.wire)
        e.clock = 20.0
        e.call("_process_send_requests")
        e.clock = 30.0
        e.call("_process_send_requests")            # queue empty now
        e.clock = 40.0
        e.call("_process_send_requests")
    except PyRaise as ex:
        ctx.ob(r_iso, f"{ps.qual}::does-not-raise", False, f"{ps.qual} raises {ex.what}", ps.loc)
        return
    ctx.ob(r_throttle, f"{ps.qual}::one-send-per-call", n1 == 1, f"{ps.qual}: one engine call with three queued requests transmits {n1} datagram(s), expected exactly 1", ps.loc)
    ctx.ob(r_throttle, f"{ps.qual}::no-send-inside-the-gap", (n2, n3) == (n1, n1),
           f"{ps.qual}: calls at +0 and +{gap * 0.9:.4f}s after a send transmit {n2 - n1} and {n3 - n2} datagram(s) - sends must be at least 1/{rate}s apart", ps.loc,
           sample={"rule": r_throttle, "rate": rate, "sent_after_calls": [n1, n2, n3, n4]})
    ctx.ob(r_throttle, f"{ps.qual}::sends-after-the-gap", n4 == n1 + 1, f"{ps.qual}: a call {gap * 1.1:.4f}s after the previous send transmits {n4 - n3} datagram(s), expected 1 (queue not empty)", ps.loc)
    order = [(w[0], w[1]) for w in e.wire]
    want = [(h.attrs["send_bytes"], d) for h, d in zip(hs, dests)]
    ctx.ob(r_fifo, "send-queue::fifo-order", order == want, f"three queued requests leave as {order}, expected queue order {want}", ps.loc,
           sample={"rule": r_fifo, "sent": [str(o) for o in order]})
    ctx.ob(r_fifo, "send-queue::records-last-destination", all(h.attrs["last_destination"] == d for h, d in zip(hs, dests)),
           f"after sending, the handlers' last_destination is {[h.attrs['last_destination'] for h in hs]}, expected {dests} (retry() re-queues to it)", ps.loc)
    # the same request queued twice (a retransmission while the first copy is still queued) goes out twice
    e = Engine(repo)
    h = e.handler("again")
    e.call("queue_send", h, ("10.0.0.1", 10022))
    e.call("queue_send", h, ("10.0.0.1", 10022))
    try:
        for t in (10.0, 20.0, 30.0):
            e.clock = t
            e.call("_process_send_requests")
        n_again = len(e.wire)
    except PyRaise:
        n_again = -1
    ctx.ob(r_fifo, "send-queue::every-request-is-queued", n_again == 2,
           f"queue_send called twice for one handler and destination transmits {n_again} datagram(s), expected 2: a retry whose earlier copy is still queued would spend its budget without a retransmission", repo.method(SOCK, "queue_send").loc)
    # ---- first match
    e = Engine(repo)
    A, B, C = e.handler("A", can=False), e.handler("B", can=True), e.handler("C", can=True)
    for h in (A, B, C):
        e.call("add_receive_handler", h)
    try:
        e.call("dispatch_recevied_data", b"<PACKT>x</PACKT>", ("10.0.0.9", 10022))
        calls = list(e.calls)
    except PyRaise as ex:
        calls = [("raises", ex.what)]
    want = [("A", "can_handle"), ("B", "can_handle"), ("B", "handle"), ("B", "handled")]
    ctx.ob(r_first, f"{dr.qual}::first-accepting-handler-only", calls == want,
           f"{dr.qual} with handlers [A refuses, B accepts, C accepts] makes the calls {calls}, expected {want}: the datagram goes to the first registered handler that accepts it, once", dr.loc,
           sample={"rule": r_first, "calls": [str(c) for c in calls]})
    # registration order is what decides, for every datagram: having matched once does not move a handler ahead of one
    # registered before it
    e = Engine(repo)
    A = e.handler("A", can=lambda data: data.startswith(b"X"))
    B = e.handler("B", can=True)
    for h in (A, B):
        e.call("add_receive_handler", h)
    try:
        e.call("dispatch_recevied_data", b"only B takes this", ("10.0.0.9", 10022))
        e.calls.clear()
        e.call("dispatch_recevied_data", b"X both would take this", ("10.0.0.9", 10022))
        calls = [c for c in e.calls if c[1] == "handle"]
    except PyRaise as ex:
        calls = [("raises", ex.what)]
    ctx.ob(r_first, f"{dr.qual}::registration-order-is-stable", calls == [("A", "handle")],
           f"{dr.qual} with handlers [A takes X.., B takes anything]: after a datagram only B accepted, a datagram both accept is handled by {calls}, expected [('A', 'handle')] - "
           f"the first REGISTERED handler that accepts, not the most recently used one", dr.loc)
    # nobody accepts
    e = Engine(repo)
    for h in (e.handler("A", can=False), e.handler("B", can=False)):
        e.call("add_receive_handler", h)
    try:
        e.call("dispatch_recevied_data", b"zz", ("10.0.0.9", 1))
        calls = list(e.calls)
    except PyRaise as ex:
        calls = [("raises", ex.what)]
    ctx.ob(r_first, f"{dr.qual}::nobody-accepts", calls == [("A", "can_handle"), ("B", "can_handle")], f"{dr.qual} with no accepting handler makes the calls {calls}", dr.loc)
    # ---- one datagram per engine pass: the thread loop runs the handler clean-up after _process_received_data, and
    # finished handlers rely on being removed before the next datagram is dispatched (the status-block assembler keeps
    # its completed segment list until then) - so one call must dispatch at most one datagram
    e = Engine(repo)
    inbox = [(b"<PACKT>one</PACKT>", ("10.0.0.9", 10022)), (b"<PACKT>two</PACKT>", ("10.0.0.9", 10022))]

    def recvfrom(a, k):
        if inbox:
            return inbox.pop(0)
        raise PyRaise("socket.timeout: timed out")
    e.os_sock.attrs["recvfrom"] = Native(recvfrom, "recvfrom")
    e.obj.attrs["_exit_event"] = Obj(None, {"is_set": Native(lambda a, k: False), "wait": Native(lambda a, k: None), "set": Native(lambda a, k: None)}, name="event")
    H = e.handler("H", can=True)
    e.call("add_receive_handler", H)
    prd = repo.method(SOCK, "_process_received_data")
    try:
        e.call("_process_received_data")
        n_handled = sum(1 for c in e.calls if c == ("H", "handle"))
    except PyRaise as ex:
        n_handled = f"raises {ex.what}"
    ctx.ob(r_first, f"{prd.qual}::one-datagram-per-pass", n_handled == 1,
           f"{prd.qual} with two datagrams waiting dispatches {n_handled} of them in one call: the handler clean-up of the engine loop no longer runs between two datagrams, "
           f"so a handler that has just completed (e.g. the status-block assembler after its final segment) receives the next datagram - a duplicated segment chain is appended and installed", prd.loc)
    # ---- isolation
    e = Engine(repo)
    bad, good = e.handler("bad", raises=True), e.handler("good")
    e.call("add_receive_handler", bad)
    try:
        e.call("dispatch_recevied_data", b"x", ("h", 1))
        ok, why = True, ""
    except PyRaise as ex:
        ok, why = False, ex.what
    ctx.ob(r_iso, f"{dr.qual}::handler-exception-contained", ok, f"{dr.qual}: an exception raised by a handler's handle() escapes ({why}): it would kill the engine thread", dr.loc)
    e = Engine(repo, sendto_raises=True)
    e.call("queue_send", good, ("h", 1))
    e.call("queue_send", good, ("h", 2))
    e.clock = 5.0
    try:
        e.call("_process_send_requests")
        e.clock = 6.0
        e.call("_process_send_requests")
        ok, why = e.wire[-1][:2] == (b"good", ("h", 2)), f"wire {e.wire}"
    except PyRaise as ex:
        ok, why = False, ex.what
    ctx.ob(r_iso, f"{ps.qual}::send-exception-contained", ok, f"{ps.qual}: a failing sendto is not contained or stops later sends ({why})", ps.loc)
    # ... and the engine THREAD survives it, whichever handler entry point raises while a datagram is looked at
    # (can_handle of the first-match search included): two passes of the thread's own loop, the first datagram makes a
    # handler raise, the second must still be dispatched to the handler that accepts it
    tf = repo.method(SOCK, "_thread_func")
    for where in ("can_handle", "handle", "handled", "loop"):
        e = Engine(repo)
        inbox = [(b"<PACKT>one</PACKT>", ("10.0.0.9", 10022)), (b"<PACKT>two</PACKT>", ("10.0.0.9", 10022))]

        def recvfrom(a, k, inbox=inbox):
            if inbox:
                return inbox.pop(0)
            raise PyRaise("socket.timeout: timed out")
        e.os_sock.attrs["recvfrom"] = Native(recvfrom, "recvfrom")
        passes = {"n": 0}

        def is_set(a, k, passes=passes):
            passes["n"] += 1
            return passes["n"] > 40          # the thread's loop condition may be read more than once per pass
        e.obj.attrs["_exit_event"] = Obj(None, {"is_set": Native(is_set, "is_set"), "wait": Native(lambda a, k: None), "set": Native(lambda a, k: None)}, name="event")
        faulty = e.handler("faulty", can=(lambda b: False) if where in ("can_handle", "loop") else (lambda b: b.find(b"one") >= 0))
        raised = {"n": 0}

        def boom(a, k, raised=raised, where=where):
            if where == "can_handle" and a and isinstance(a[0], (bytes, bytearray)) and bytes(a[0]).find(b"one") < 0:
                return False
            raised["n"] += 1
            raise PyRaise("IndexError: index out of range")
        faulty.attrs[where] = Native(boom, where)
        good2 = e.handler("good", can=lambda b: b.find(b"two") >= 0)
        e.call("add_receive_handler", faulty)
        e.call("add_receive_handler", good2)
        try:
            e.interp.steps = 0
            e.call("_thread_func")
            ok = raised["n"] >= 1 and ("good", "handle") in e.calls
            why = f"the second datagram was {'dispatched' if ('good', 'handle') in e.calls else 'never dispatched'}, the faulty handler raised {raised['n']} time(s)"
        except PyRaise as ex:
            ok, why = False, f"{ex.what} leaves the thread's loop"
        ctx.ob(r_iso, f"{tf.qual}::survives-exception-in-{where}", ok,
               f"{tf.qual}: a handler whose {where}() raises {'in the timeout / retry phase (its retry-failed callback is client code)' if where == 'loop' else 'on a received datagram'}: {why} - the engine thread ends, nothing is sent, received, retried or retired any more while the socket still reads as open", tf.loc,
               sample={"rule": r_iso, "raising": where, "calls": [list(c) for c in e.calls][:8]})


def _largest_update_datagram():
    """the longest datagram the protocol produces: one partial update carrying 255 changes (the count is one byte),
    wrapped for a spa / client pair with identifiers of the usual lengths"""
    body = b"STATP" + bytes([255]) + b"".join(bytes([1, i, 0, i]) for i in range(255))
    return b"<PACKT><SRCCN>SPA01:02:03:04:05:06</SRCCN><DESCN>IOS" + b"01234567-89ab-cdef-0123-456789abcdef" + b"</DESCN><DATAS>" + body + b"</DATAS></PACKT>"


def _flat(v, depth=0):
    if isinstance(v, (tuple, list)) and depth < 4:
        for x in v:
            yield from _flat(x, depth + 1)
    elif isinstance(v, Obj) and depth < 4:
        for x in v.attrs.values():
            yield from _flat(x, depth + 1)
    else:
        yield v


def receive_paths_verbatim(ctx, repo, rule, only=("blocking", "awaitable"), skip=()):
    """What arrives is what the handlers see, byte for byte, on both stacks: the datagram handed to the receive side
    (model socket whose recvfrom cuts a datagram to the buffer size asked for, as UDP does; the protocol's
    datagram_received callback) reaches the handlers / the receive queue unchanged - not cut short, not stripped.
    Probed with the longest datagram the protocol produces (a partial update with 255 changes) and with content that
    begins and ends in bytes a text clean-up would remove (the awaitable client feeds unwrapped binary content through
    the same callback: a 39-byte block segment may end in 0x20 / 0x0a)."""
    probes = {"longest-update": _largest_update_datagram(),
              "whitespace-edges": b"\t STATV\x00\x01\x27" + bytes(range(0x30, 0x30 + 36)) + b"\x0c \r\n",
              "nul-edges": b"\x00\x00STATV\x01\x02\x27" + bytes(37) + b"\x00\x00"}
    probes = {k_: v_ for k_, v_ in probes.items() if k_ not in skip}
    sender = ("10.0.0.9", 10022)
    if "blocking" in only:
        prd = repo.method(SOCK, "_process_received_data")
        for name, data in probes.items():
            e = Engine(repo)
            inbox = [(data, sender)]
            asked = []

            def recvfrom(a, k, inbox=inbox, asked=asked):
                if inbox:
                    d, s = inbox.pop(0)
                    n = a[0] if a else k.get("bufsize")
                    asked.append(n)
                    if not isinstance(n, int) or isinstance(n, bool):
                        raise PyRaise("TypeError: recvfrom needs a buffer size")
                    return d[:n], s
                raise PyRaise("socket.timeout: timed out")
            e.os_sock.attrs["recvfrom"] = Native(recvfrom, "recvfrom")
            e.obj.attrs["_exit_event"] = Obj(None, {"is_set": Native(lambda a, k: False), "wait": Native(lambda a, k: None), "set": Native(lambda a, k: None)}, name="event")
            seen = []
            H = e.handler("H", can=lambda b, seen=seen: (seen.append(b), True)[1])
            e.call("add_receive_handler", H)
            try:
                e.call("_process_received_data")
                got = seen[0] if seen else None
            except PyRaise as ex:
                got = f"raises {ex.what}"
            ok = isinstance(got, (bytes, bytearray)) and bytes(got) == data
            what = (f"only the first {len(got)} of its {len(data)} bytes (buffer of {asked[:1]} bytes asked for)" if isinstance(got, (bytes, bytearray)) and data.startswith(bytes(got)) and got != data
                    else f"{bytes(got)[:12]!r}...{bytes(got)[-8:]!r} ({len(got)} bytes)" if isinstance(got, (bytes, bytearray)) else repr(got))
            ctx.ob(rule, f"{prd.qual}::{name}::handlers-see-the-datagram", ok,
                   f"{prd.qual}: of a {len(data)}-byte datagram ({name}) the handlers are shown {what}: a datagram that is cut or altered on the way in is claimed by no handler (a whole partial update is dropped, unacknowledged) or is decoded short",
                   prd.loc, sample={"rule": rule, "stack": "blocking", "probe": name, "bytes": len(data), "buffer_asked": asked[:1]})
    if "awaitable" in only:
        pc = repo.cls("GeckoAsyncUdpProtocol")
        dr = repo.all_methods(pc).get("datagram_received")
        if dr is None:
            raise AnalysisError("GeckoAsyncUdpProtocol.datagram_received not found")
        for name, data in probes.items():
            interp = Interp(repo, max_depth=10)
            init = repo.all_methods(pc).get("__init__")
            a_ = init.node.args
            n_pos = len(a_.args) - 1 - len(a_.defaults)
            try:
                proto = interp.apply(ClassRef(pc), [Obj(None, {"done": Native(lambda a, k: False), "set_result": Native(lambda a, k: None)}, name=f"arg{i}") for i in range(n_pos)], {})
                interp.call(dr, proto, [data, sender])
                q = interp.getattr(proto, "queue")
                head = interp.getattr(q, "head")
                got = [x for x in _flat(head) if isinstance(x, (bytes, bytearray))]
                addr_ok = any(x == sender[0] for x in _flat(head))
            except PyRaise as ex:
                got, addr_ok = f"raises {ex.what}", False
            except Undecided as ex:
                raise AnalysisError(f"{dr.qual}: cannot interpret: {ex}")
            ok = isinstance(got, list) and len(got) == 1 and bytes(got[0]) == data and addr_ok
            what = (f"{bytes(got[0])[:12]!r}...{bytes(got[0])[-8:]!r} ({len(got[0])} of {len(data)} bytes)" if isinstance(got, list) and got else repr(got))
            ctx.ob(rule, f"{dr.qual}::{name}::queued-as-received", ok,
                   f"{dr.qual}: a {len(data)}-byte datagram ({name}) is queued as {what}{'' if addr_ok or not isinstance(got, list) else ' without its sender'}: the awaitable client passes unwrapped binary content (block segments) through this callback, "
                   f"so bytes removed at either end shorten a segment - the block is assembled from short data and later bytes land at lower offsets, with the transfer reported as successful",
                   dr.loc, sample={"rule": rule, "stack": "awaitable", "probe": name, "bytes": len(data)})
    ctx.count(f"{rule}:receive-path probes", len(probes) * len(only))


def traffic_log_carries_whole_datagrams(ctx, repo, rule):
    """the raw traffic log is written by the socket's own debug lines: the datagram handed to the "Received ..." line is the
    datagram that arrived, whole - the traffic-log reader reassembles a transfer from `STATV ... </DATAS>` on those lines,
    so a line that shows only the first N bytes loses every segment longer than that.  dispatch of a 400-byte datagram
    is interpreted with the logger observed."""
    e = Engine(repo)
    body = b"STATV\x00\x01\xc8" + bytes((i * 7 + 3) % 256 for i in range(200))
    data = b"<PACKT><SRCCN>SPA01:02:03:04:05:06</SRCCN><DESCN>IOS01234567-89ab-cdef-0123-456789abcdef</DESCN><DATAS>" + body + b"</DATAS></PACKT>"
    logged = []
    e.interp.__dict__["log_hook"] = lambda level, args: logged.append((level, list(args)))
    H = e.handler("H", can=True)
    e.call("add_receive_handler", H)
    dr = repo.method(SOCK, "dispatch_recevied_data")
    try:
        e.call("dispatch_recevied_data", data, ("10.0.0.9", 10022))
    except PyRaise as ex:
        logged.append(("raises", [ex.what]))
    shown = [a for _lv, args in logged for a in args[1:] if isinstance(a, (bytes, bytearray))]
    whole = [a for a in shown if bytes(a) == data]
    cut = [len(a) for a in shown if bytes(a) != data and data.startswith(bytes(a))]
    ctx.ob(rule, f"{dr.qual}::received-line-shows-the-whole-datagram", bool(whole) or not shown,
           f"{dr.qual}: of a {len(data)}-byte datagram the log lines show {cut or [len(a) for a in shown]} bytes: the traffic-log reader finds no `</DATAS>` on a line that was cut, "
           f"the segment vanishes from the log, and the transfer reassembles to other bytes than the client received", dr.loc,
           sample={"rule": rule, "datagram_bytes": len(data), "logged_byte_args": [len(a) for a in shown]})
    if not shown:
        ctx.note(f"{dr.qual}: no log call with the datagram as an argument seen on the model - the traffic log's writer side is not this function")
    ctx.count(f"{rule}:log calls observed while dispatching", len(logged))
