"""Lifecycle-relation extractor for GeckoAsyncSpaMan._handle_event and friends."""
from __future__ import annotations

import ast

from .cfg import cfg_of
from .core import AnalysisError
from .src import Repo, call_name, walk_no_nested

MAN = "GeckoAsyncSpaMan"
STATE_ATTR = "self._spa_state"
EVENT_CALLS = ("_handle_event", "_event_handler", "handle_event")


def enum_member(e, enum):
    """GeckoSpaState.X -> 'X' (or None)"""
    if isinstance(e, ast.Attribute) and isinstance(e.value, ast.Name) and e.value.id == enum:
        return e.attr
    return None


def events_of_guards(facts):
    """Event names a node is specific to, from its guard atoms."""
    evs = set()
    for t, p in facts:
        if not p:
            continue
        if t.startswith("GeckoSpaEvent.") and " == event" in t:
            evs.add(t.split(" == ")[0].split(".")[1])
        elif t.startswith("event == GeckoSpaEvent."):
            evs.add(t.split(".")[-1])
        elif t.startswith("event in ("):
            for part in t[len("event in ("):].rstrip(")").split(","):
                part = part.strip()
                if part.startswith("GeckoSpaEvent."):
                    evs.add(part.split(".")[1])
    return evs


def state_guards(facts):
    """(states required, states excluded) from guard atoms on the manager state."""
    req, exc = set(), set()
    for t, p in facts:
        for lhs in ("self._spa_state", "self.spa_state"):
            if t.startswith("GeckoSpaState.") and t.endswith(f" == {lhs}"):
                (req if p else exc).add(t.split(" == ")[0].split(".")[1])
            elif t.startswith(f"{lhs} == GeckoSpaState."):
                (req if p else exc).add(t.split(".")[-1])
            elif t.startswith(f"{lhs} in ("):
                names = [x.strip().split(".")[1] for x in t[len(f"{lhs} in ("):].rstrip(")").split(",") if x.strip().startswith("GeckoSpaState.")]
                if p:
                    req |= set(names)
                else:
                    exc |= set(names)
    return req, exc


class Row:
    def __init__(self, fi, node, kind, value, facts):
        self.fi = fi
        self.node = node
        self.kind = kind  # 'state' | 'raise' | 'call'
        self.value = value
        self.facts = facts
        self.events = events_of_guards(facts)
        self.req_states, self.exc_states = state_guards(facts)

    def describe(self):
        return {
            "in": self.fi.qual,
            "line": self.node.lineno,
            "on_events": sorted(self.events),
            "state_guard": sorted(self.req_states),
            "kind": self.kind,
            "value": self.value,
        }


def event_arg(call):
    if call.args:
        m = enum_member(call.args[0], "GeckoSpaEvent")
        if m:
            return m
    return None


def rows_of(fi):
    """State assignments, event raises and reset calls in one function with guards."""
    g = cfg_of(fi)
    out = []
    for n in g.stmt_nodes():
        if n.kind != "stmt":
            continue
        a = n.ast
        if isinstance(a, ast.Assign) and any(ast.unparse(t) == STATE_ATTR for t in a.targets):
            v = enum_member(a.value, "GeckoSpaState")
            out.append(Row(fi, n, "state", v or ast.unparse(a.value), g.guard_atoms(n)))
        for c in n.calls():
            nm = call_name(c)
            if nm in EVENT_CALLS and event_arg(c):
                out.append(Row(fi, n, "raise", event_arg(c), g.guard_atoms(n)))
            elif nm == "async_reset":
                out.append(Row(fi, n, "call", "async_reset", g.guard_atoms(n)))
    return g, out


def all_raise_sites(repo: Repo):
    """Every site in the package that raises a GeckoSpaEvent: (fi, call, event)."""
    out = []
    for fi in repo.all_functions():
        for n in walk_no_nested(fi.node):
            if isinstance(n, ast.Call) and call_name(n) in EVENT_CALLS:
                ev = event_arg(n)
                if ev:
                    out.append((fi, n, ev))
    return out


def enum_members(repo, name):
    c = repo.cls(name)
    return [k for k, v in c.consts.items() if isinstance(v, ast.Constant) and isinstance(v.value, int)]
