"""Device-write model: the two connection classes' set-value callbacks are *interpreted* (vlib.absint) on a model
connection whose pack type, config version and log version are pairwise distinct, with a model send path that
captures the request handed to it.  The datagram each path emits is compared, byte for byte, with what the
command builder produces when every field is passed *by parameter name* - so the obligation speaks about which
value reaches which field of the device write, not about how the call is spelled.

  device_writes(ctx, repo, rule)   blocking == awaitable == builder(seq, pack_type=, config_version=, log_version=, pos, len, data)
"""
from __future__ import annotations

from .absint import ClassRef, Closure, Interp, Native, Obj, PyRaise, Undecided
from .core import AnalysisError

BUILDER = ("GeckoPackCommandProtocolHandler", "set_value")
SITES = (("GeckoSpa", "_on_set_value", "blocking"), ("GeckoAsyncSpa", "_on_async_set_value", "awaitable"))
IDENT = {"pack_type": 7, "config_version": 11, "log_version": 13}
PARMS = ("10.1.2.3", 10022, b"SPA-ID", b"IOS-CLIENT")
SEQ = 201


def _bytes_of(interp, h):
    try:
        return interp.getattr(h, "send_bytes")
    except (PyRaise, Undecided) as e:
        raise AnalysisError(f"send_bytes of the captured request: {e}")


def _emit(repo, cname, mname, pos, length, value):
    """interpret one set-value callback; returns the list of datagrams handed to the send path"""
    interp = Interp(repo, max_depth=10)
    sent = []

    def counter(a, k):
        return SEQ  # the kind drawn is C16's business; here every draw gives the same number

    def take(h):
        if isinstance(h, Closure):
            h = h([], {})
        sent.append(_bytes_of(interp, h))
        return h

    proto = Obj(None, {"get_and_increment_sequence_counter": Native(counter, "counter"),
                       "get": Native(lambda a, k: take(a[0]), "get"),
                       "queue_send": Native(lambda a, k: take(a[0]), "queue_send")}, name="protocol")
    spa = Obj(repo.cls(cname), dict(IDENT), name=cname)   # helper methods a refactoring adds resolve through the class
    spa.attrs.update({"sendparms": PARMS, "_protocol": proto, "is_connected": True, "_is_connected": True, "is_responding_to_pings": True,
                      "get_and_increment_sequence_counter": Native(counter, "counter"),
                      "add_receive_handler": Native(lambda a, k: None, "add_receive_handler"),
                      "queue_send": Native(lambda a, k: take(a[0]), "queue_send"),
                      "_event_handler": Native(lambda a, k: None, "_event_handler")})
    fi = repo.method(cname, mname)
    try:
        interp.call(fi, spa, [pos, length, value])
    except PyRaise as e:
        return [f"raises {e.what}"]
    except Undecided as e:
        raise AnalysisError(f"{cname}.{mname}({pos}, {length}, {value}) on the model connection: {e}")
    return sent


def _reference(repo, pos, length, value):
    interp = Interp(repo, max_depth=10)
    fi = repo.method(*BUILDER)
    params = [a.arg for a in fi.node.args.args]
    for need in ("pack_type", "config_version", "log_version"):
        if need not in params:
            raise AnalysisError(f"{'.'.join(BUILDER)} has no parameter `{need}` - the reference device write cannot be built by name")
    kw = dict(IDENT)
    kw["parms"] = PARMS
    # positional: seq first; pos/len/data are the three parameters after the identity fields
    rest = [p for p in params if p not in IDENT]
    if len(rest) != 4:
        raise AnalysisError(f"{'.'.join(BUILDER)} parameters {params}: expected (seq, pack_type, config_version, log_version, pos, len, data)")
    for name, v in zip(rest, (SEQ, pos, length, value)):
        kw[name] = v
    try:
        h = interp.call(fi, None, [], kw)
    except PyRaise as e:
        return f"raises {e.what}"
    except Undecided as e:
        raise AnalysisError(f"{'.'.join(BUILDER)} by keyword: {e}")
    return _bytes_of(interp, h)


def device_writes(ctx, repo, rule):
    cases = ((300, 1, 0x5A), (0x0123, 2, 0xBEEF), (1, 2, 0), (0, 1, 255))
    n = 0
    for pos, length, value in cases:
        ref = _reference(repo, pos, length, value)
        bfi = repo.method(*BUILDER)
        ctx.ob(rule, f"{'.'.join(BUILDER)}::builds::len{length}::{value:#x}", not isinstance(ref, str),
               f"{'.'.join(BUILDER)}(pos={pos}, len={length}, data={value:#x}) {ref}: a value of the item's domain cannot be written", bfi.loc)
        if isinstance(ref, str):
            n += len(SITES)
            continue
        got = {}
        for cname, mname, label in SITES:
            sent = _emit(repo, cname, mname, pos, length, value)
            got[label] = sent
            n += 1
            fi = repo.method(cname, mname)
            ctx.ob(rule, f"{cname}.{mname}::one-device-write", len(sent) == 1,
                   f"{cname}.{mname}({pos}, {length}, {value:#x}) hands {len(sent)} request(s) to the send path, expected exactly one", fi.loc)
            if len(sent) != 1:
                continue
            ctx.ob(rule, f"{cname}.{mname}::device-write-fields", sent[0] == ref,
                   f"{cname}.{mname}(pos={pos}, length={length}, value={value:#x}) on a connection with pack type {IDENT['pack_type']}, config version {IDENT['config_version']}, "
                   f"log version {IDENT['log_version']} emits {sent[0]!r}; the command builder called with those fields by name gives {ref!r} - "
                   f"a field of the device write carries another value than the connection's (the spa checks the versions and ignores or mis-applies the write)",
                   fi.loc, sample={"rule": rule, "site": f"{cname}.{mname}", "case": [pos, length, value], "emitted": repr(sent[0])})
        if all(len(v) == 1 for v in got.values()):
            ctx.ob(rule, f"blocking-vs-awaitable::pos{pos}-len{length}", got["blocking"] == got["awaitable"],
                   f"the blocking path emits {got['blocking'][0]!r}, the awaitable path {got['awaitable'][0]!r} for the same accessor write ({pos}, {length}, {value:#x})",
                   repo.method(SITES[0][0], SITES[0][1]).loc)
    ctx.count(f"{rule}:set-value callbacks interpreted", n)
    ctx.floor(rule, "set-value callbacks interpreted", n, 2 * len(cases))
