"""Device-write model: the connection classes' command callbacks (set-value, key press) are *interpreted*
(vlib.absint) on a model connection whose pack type, config version and log version are pairwise distinct, with a
model send path that captures the request handed to it.  The datagram each path emits is compared, byte for byte,
with what the command builder produces when every field is passed *by parameter name* - so the obligation speaks
about which value reaches which field of the device write, not about how the call is spelled (positional or
keyword arguments, a helper in between, a thunk).

  device_writes(ctx, repo, rule, kinds=False)   set-value: blocking == awaitable == builder(seq, pack_type=, config_version=,
                                                log_version=, pos, len, data); kinds=True also checks the sequence kind drawn
  key_presses(ctx, repo, rule)                  key press: blocking == awaitable == builder(seq, pack_type=, key=)
"""
from __future__ import annotations

from .absint import Closure, Interp, Native, Obj, PyRaise, Undecided
from .core import AnalysisError

HANDLER = "GeckoPackCommandProtocolHandler"
SET_SITES = (("GeckoSpa", "_on_set_value", "blocking"), ("GeckoAsyncSpa", "_on_async_set_value", "awaitable"))
KEY_SITES = (("GeckoSpa", "press", "blocking"), ("GeckoAsyncSpa", "async_press", "awaitable"))
IDENT = {"pack_type": 7, "config_version": 11, "log_version": 13}
PARMS = ("10.1.2.3", 10022, b"SPA-ID", b"IOS-CLIENT")
SEQ = 201          # what the model counter issues for the command kind
SEQ_PROTOCOL = 9   # ... and for the protocol kind (only when kinds are told apart)


def _bytes_of(interp, h):
    try:
        return interp.getattr(h, "send_bytes")
    except (PyRaise, Undecided) as e:
        raise AnalysisError(f"send_bytes of the captured request: {e}")


def _emit(repo, cname, mname, args, kinds):
    """interpret one command callback; returns (datagrams handed to the send path, kinds drawn, destinations)"""
    interp = Interp(repo, max_depth=10)
    sent, drawn, dests = [], [], []

    def counter(a, k):
        kind = a[0] if a else k.get("command")
        drawn.append(kind)
        return SEQ if (not kinds or kind is True) else SEQ_PROTOCOL

    def take(a):
        h = a[0]
        if not isinstance(h, Obj):
            h = interp.apply(h, [], {})    # a request factory: lambda, functools.partial, bound method
        sent.append(_bytes_of(interp, h))
        dests.append(a[1] if len(a) > 1 else None)
        return h

    proto = Obj(None, {"get_and_increment_sequence_counter": Native(counter, "counter"),
                       "get": Native(lambda a, k: take(a[:1]), "get"),
                       "queue_send": Native(lambda a, k: take(a), "queue_send")}, name="protocol")
    spa = Obj(repo.cls(cname), dict(IDENT), name=cname)   # helper methods a refactoring adds resolve through the class
    spa.attrs.update({"sendparms": PARMS, "_protocol": proto, "is_connected": True, "_is_connected": True, "is_responding_to_pings": True,
                      "get_and_increment_sequence_counter": Native(counter, "counter"),
                      "add_receive_handler": Native(lambda a, k: None, "add_receive_handler"),
                      "queue_send": Native(lambda a, k: take(a), "queue_send"),
                      "_event_handler": Native(lambda a, k: None, "_event_handler")})
    fi = repo.method(cname, mname)
    try:
        interp.call(fi, spa, list(args))
    except PyRaise as e:
        return [f"raises {e.what}"], drawn, dests
    except Undecided as e:
        raise AnalysisError(f"{cname}.{mname}{tuple(args)} on the model connection: {e}")
    return sent, drawn, dests


def _reference(repo, builder, values):
    """builder called with the identity fields by name; `values` are the remaining parameters in order (seq first)"""
    interp = Interp(repo, max_depth=10)
    fi = repo.method(HANDLER, builder)
    params = [a.arg for a in fi.node.args.args]
    rest = [p for p in params if p not in IDENT]
    used = [p for p in params if p in IDENT]
    if "pack_type" not in used or len(rest) != len(values):
        raise AnalysisError(f"{HANDLER}.{builder} parameters {params}: not (seq, pack_type, [config_version, log_version,] ...) with {len(values)} further parameters")
    kw = {k: IDENT[k] for k in used}
    kw["parms"] = PARMS
    for name, v in zip(rest, values):
        kw[name] = v
    try:
        h = interp.call(fi, None, [], kw)
    except PyRaise as e:
        return f"raises {e.what}"
    except Undecided as e:
        raise AnalysisError(f"{HANDLER}.{builder} by keyword: {e}")
    return _bytes_of(interp, h)


def _compare(ctx, repo, rule, sites, builder, cases, kinds, describe):
    n = 0
    for case in cases:
        ref = _reference(repo, builder, (SEQ,) + tuple(case))
        bfi = repo.method(HANDLER, builder)
        ctx.ob(rule, f"{HANDLER}.{builder}::builds::{'-'.join(map(str, case))}", not isinstance(ref, str),
               f"{HANDLER}.{builder}{tuple(case)} {ref}: a value of the item's domain cannot be sent", bfi.loc)
        if isinstance(ref, str):
            n += len(sites)
            continue
        got = {}
        for cname, mname, label in sites:
            sent, drawn, dests = _emit(repo, cname, mname, case, kinds)
            got[label] = sent
            n += 1
            fi = repo.method(cname, mname)
            ctx.ob(rule, f"{cname}.{mname}::one-device-write", len(sent) == 1,
                   f"{cname}.{mname}{tuple(case)} hands {len(sent)} request(s) to the send path, expected exactly one", fi.loc)
            if len(sent) != 1:
                continue
            if kinds:
                ctx.ob(rule, f"{cname}.{mname}::sequence-from-command-counter", drawn == [True],
                       f"{cname}.{mname}: the command's sequence number is drawn with kind(s) {drawn}, expected exactly one draw of the command kind (True): "
                       f"a pack command must carry a number of the command range", fi.loc)
                ctx.ob(rule, f"{cname}.{mname}::addressed", all(d is None or d == PARMS for d in dests),
                       f"{cname}.{mname}: the command is queued for {dests}, not for the connection's own peer {PARMS}", fi.loc)
            ctx.ob(rule, f"{cname}.{mname}::device-write-fields", sent[0] == ref,
                   f"{cname}.{mname}({describe(case)}) on a connection with pack type {IDENT['pack_type']}, config version {IDENT['config_version']}, "
                   f"log version {IDENT['log_version']} emits {sent[0]!r}; the command builder called with those fields by name gives {ref!r} - "
                   f"a field of the command carries another value than the connection's / the caller's (the spa checks type and versions and ignores or mis-applies it)",
                   fi.loc, sample={"rule": rule, "site": f"{cname}.{mname}", "case": list(case), "emitted": repr(sent[0])})
        if all(len(v) == 1 for v in got.values()):
            ctx.ob(rule, f"{builder}::blocking-vs-awaitable::{'-'.join(map(str, case))}", got["blocking"] == got["awaitable"],
                   f"the blocking path emits {got['blocking'][0]!r}, the awaitable path {got['awaitable'][0]!r} for the same request {describe(case)}",
                   repo.method(sites[0][0], sites[0][1]).loc)
    # the frame itself, against the in.touch2 layout (the decoder drops the version bytes, so a round trip cannot see
    # them): SPACK seq type len cmd [config log pos.hi pos.lo data.. | key]
    for case in cases:
        ref = _reference(repo, builder, (SEQ,) + tuple(case))
        if isinstance(ref, str):
            continue
        if builder == "set_value":
            pos, ln, val = case
            want = b"SPACK" + bytes([SEQ, IDENT["pack_type"], 5 + ln, 0x46, IDENT["config_version"], IDENT["log_version"]]) + pos.to_bytes(2, "big") + val.to_bytes(ln, "big")
        else:
            want = b"SPACK" + bytes([SEQ, IDENT["pack_type"], 2, 0x39, case[0]])
        framed = b"<DATAS>" + want + b"</DATAS>"
        ctx.ob(rule, f"{HANDLER}.{builder}::in.touch2-layout::{'-'.join(map(str, case))}", isinstance(ref, bytes) and framed in ref,
               f"{HANDLER}.{builder}({describe(case)}; pack type {IDENT['pack_type']}, config version {IDENT['config_version']}, log version {IDENT['log_version']}) builds {ref!r}; "
               f"the in.touch2 frame is {want!r} (sequence, pack type, length, command, then config version, log version, position, data)", repo.method(HANDLER, builder).loc)
    ctx.count(f"{rule}:{builder} callbacks interpreted", n)
    ctx.floor(rule, f"{builder} callbacks interpreted", n, len(sites) * len(cases))


def device_writes(ctx, repo, rule, kinds=False):
    cases = ((300, 1, 0x5A), (0x0123, 2, 0xBEEF), (1, 2, 0), (0, 1, 255))
    _compare(ctx, repo, rule, SET_SITES, "set_value", cases, kinds, lambda c: f"pos={c[0]}, length={c[1]}, value={c[2]:#x}")


def key_presses(ctx, repo, rule, kinds=True):
    cases = ((1,), (16,), (23,), (255,))
    _compare(ctx, repo, rule, KEY_SITES, "keypress", cases, kinds, lambda c: f"keypad={c[0]}")


def overlapping_writes(ctx, repo, rule):
    """Two awaitable writes in flight on one connection: protocol.get() calls a request factory only once it holds the
    request lock - and again for every retry - so the factory of write A may run after write B was issued.  Both
    callbacks are interpreted on ONE model connection whose get() only collects the factories; then the factories are
    called in the order A, B, A (a retry of A): each must build its own write's datagram."""
    A, B = (300, 1, 0x5A), (0x0123, 2, 0xBEEF)
    for cname, mname, label in (SET_SITES[1],):
        interp = Interp(repo, max_depth=10)
        factories = []
        proto = Obj(None, {"get_and_increment_sequence_counter": Native(lambda a, k: SEQ, "counter"),
                           "get": Native(lambda a, k: (factories.append(a[0]), Obj(None, name="reply"))[1], "get"),
                           "queue_send": Native(lambda a, k: None, "queue_send")}, name="protocol")
        spa = Obj(repo.cls(cname), dict(IDENT), name=cname)
        spa.attrs.update({"sendparms": PARMS, "_protocol": proto, "is_connected": True, "_is_connected": True, "is_responding_to_pings": True,
                          "_event_handler": Native(lambda a, k: None, "_event_handler")})
        fi = repo.method(cname, mname)
        try:
            interp.call(fi, spa, list(A))
            interp.call(fi, spa, list(B))
            built = []
            for idx in (0, 1, 0):
                if idx >= len(factories):
                    built.append("<no factory>")
                    continue
                h = factories[idx]
                h = h if isinstance(h, Obj) else interp.apply(h, [], {})
                built.append(_bytes_of(interp, h))
        except PyRaise as e:
            built = [f"raises {e.what}"]
        except Undecided as e:
            raise AnalysisError(f"{cname}.{mname}: two writes in flight on the model connection: {e}")
        ref = [_reference(repo, "set_value", (SEQ,) + w) for w in (A, B, A)]
        ctx.ob(rule, f"{cname}.{mname}::each-request-factory-builds-its-own-write", built == ref,
               f"{cname}.{mname}{A} and then {B} issued before either was sent: their request factories, called in the order first, second, first (a retry), build {built!r}, "
               f"expected {ref!r} - a write parked in shared state is replaced by the write issued after it (the first item is never written, the second twice)", fi.loc,
               sample={"rule": rule, "site": f"{cname}.{mname}", "built": [repr(b) for b in built]})
