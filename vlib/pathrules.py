"""Reusable path-rule helpers on top of vlib.cfg."""
from __future__ import annotations

import ast

from .src import call_name, names_in, receiver


def assigns_to(node, name):
    """Does this CFG node (re)bind local `name`?"""
    a = node.ast
    if node.kind == "for":
        return name in names_in(a.target)
    if node.kind != "stmt":
        return False
    if isinstance(a, ast.Assign):
        return any(name in {n.id for n in ast.walk(t) if isinstance(n, ast.Name) and isinstance(n.ctx, ast.Store)} for t in a.targets)
    if isinstance(a, (ast.AugAssign, ast.AnnAssign)):
        return isinstance(a.target, ast.Name) and a.target.id == name
    return False


def assigns_attr(node, attr_text):
    """Does this CFG node assign `self.x` (attr_text = 'self.x')?"""
    a = node.ast
    if node.kind != "stmt":
        return False
    ts = []
    if isinstance(a, ast.Assign):
        ts = a.targets
    elif isinstance(a, (ast.AugAssign, ast.AnnAssign)):
        ts = [a.target]
    for t in ts:
        for tt in ast.walk(t):
            if isinstance(tt, ast.Attribute) and isinstance(tt.ctx, ast.Store):
                if ast.unparse(tt) == attr_text:
                    return True
                g = getattr(node, "cfg", None)
                if g is not None and not ast.unparse(tt).startswith("self.") and g.canon_target(node, tt) == attr_text:
                    return True
    return False


def is_decrement(node, name):
    a = node.ast
    if node.kind != "stmt":
        return False
    if isinstance(a, ast.AugAssign) and isinstance(a.op, ast.Sub) and ast.unparse(a.target) == name:
        return isinstance(a.value, ast.Constant) and isinstance(a.value.value, int) and a.value.value >= 1
    if isinstance(a, ast.Assign) and len(a.targets) == 1 and ast.unparse(a.targets[0]) == name:
        v = a.value
        if isinstance(v, ast.BinOp) and isinstance(v.op, ast.Sub) and ast.unparse(v.left) == name:
            return isinstance(v.right, ast.Constant) and isinstance(v.right.value, int) and v.right.value >= 1
    return False


def loop_heads(g):
    return {h for _, h in g.back_edges}


def variant(g, head, name):
    """Bounded-loop argument for `while <name> > 0`: every cycle through `head` passes a
    strict decrement of `name`, and nothing else in the loop writes `name`.
    -> (ok, reason)"""
    body = g.loop_body(head)
    decs = [n for n in body if is_decrement(n, name)]
    if not decs:
        return False, f"no decrement of {name} inside the loop"
    if head in g.reach_from(head, avoid=decs):
        return False, f"a loop iteration can complete without decrementing {name}"
    others = [n for n in body if n not in decs and (assigns_to(n, name) if "." not in name else assigns_attr(n, name))]
    if others:
        return False, f"{name} is also written at line {others[0].lineno} inside the loop"
    return True, ""


def head_test_bounds(head, name):
    """Loop test is `<name> > 0` (or equivalent: `0 < name`, `name >= 1`, `name != 0`
    is NOT accepted because a decrement by more than one would skip zero)."""
    t = head.ast
    if not isinstance(t, ast.Compare) or len(t.ops) != 1:
        return False
    l, op, r = ast.unparse(t.left), t.ops[0], ast.unparse(t.comparators[0])
    if l == name and isinstance(op, ast.Gt) and r == "0":
        return True
    if r == name and isinstance(op, ast.Lt) and l == "0":
        return True
    if l == name and isinstance(op, ast.GtE) and r == "1":
        return True
    return False


def calls_named(g, name, nodes=None):
    out = []
    for n in (nodes if nodes is not None else g.stmt_nodes()):
        for c in n.calls():
            if call_name(c) == name:
                out.append((n, c))
    return out


def once_per_iteration(g, head, nodes):
    """Each cycle through `head` executes at most one of `nodes` and none of them sits
    in an inner loop."""
    nodes = list(nodes)
    for n in nodes:
        inner = g.loop_of(n)
        if inner is not head:
            return False, f"send at line {n.lineno} is inside an inner loop"
    for a in nodes:
        # from a, can we reach another send (or a again) without passing head?
        r = g.reach_from(a, avoid=[head])
        for b in nodes:
            if b in r:
                return False, f"two sends (lines {a.lineno}, {b.lineno}) can happen in one iteration"
    return True, ""


def lexically_inside_with(func_node, target, pred):
    """Is AST node `target` inside a With/AsyncWith of func_node whose some item's
    context expression satisfies pred(expr)?"""
    found = []

    def visit(n, inside):
        if n is target:
            found.append(inside)
            return
        if isinstance(n, (ast.With, ast.AsyncWith)):
            ins = inside or any(pred(it.context_expr, n) for it in n.items)
            for it in n.items:
                visit(it.context_expr, inside)
            for s in n.body:
                visit(s, ins)
            return
        for ch in ast.iter_child_nodes(n):
            visit(ch, inside)

    visit(func_node, False)
    return bool(found) and all(found)


def pass_through(g, fi, min_params=1):
    """Does `fi` hand ALL of its own parameters (other than self), unchanged and in order, to one
    call on every path from entry?  -> (verdict, detail)
       verdict True  : such a call post-dominates the entry and no parameter is rebound before it
               False : the forwarding call exists but can be skipped / parameters are rebound (detail says which)
               None  : no call forwarding exactly the parameters found (idiom not recognised)"""
    params = [a.arg for a in fi.node.args.posonlyargs + fi.node.args.args if a.arg != "self"]
    if len(params) < min_params:
        return None, f"{fi.qual} has parameters {params}"
    fwd = []
    own = set()
    if fi.cls is not None:
        k = fi.cls
        own = set(k.methods)  # calls of the class's own methods are helpers, not the delegate
    for n in g.stmt_nodes():
        for c in n.calls():
            if [ast.unparse(a) for a in c.args] == params and not c.keywords:
                if isinstance(c.func, ast.Attribute) and isinstance(c.func.value, ast.Name) and c.func.value.id == "self" and c.func.attr in own:
                    continue
                fwd.append((n, c))
    if not fwd:
        return None, f"no call forwarding ({', '.join(params)})"
    rebound = sorted({t.id for n in g.stmt_nodes() for t in ast.walk(n.ast) if isinstance(t, ast.Name) and t.id in params and isinstance(t.ctx, ast.Store)})
    if rebound:
        return False, f"parameter(s) {rebound} are rebound before being forwarded"
    if any(g.pdom(n, g.entry) for n, _ in fwd):
        return True, ast.unparse(fwd[0][1].func)
    n, c = fwd[0]
    atoms = "; ".join(("" if p else "not ") + t for t, p in g.guard_atoms(n))
    return False, f"`{ast.unparse(c)}` is reached only when [{atoms}]"


def _flag_var(test):
    """name of the local tested by a pure flag test (`v`, `not v`, `v is None`, `v is not None`), else None"""
    e = test
    while isinstance(e, ast.UnaryOp) and isinstance(e.op, ast.Not):
        e = e.operand
    if isinstance(e, ast.Name):
        return e.id
    if isinstance(e, ast.Compare) and len(e.ops) == 1 and isinstance(e.ops[0], (ast.Is, ast.IsNot)) and isinstance(e.left, ast.Name) \
            and isinstance(e.comparators[0], ast.Constant) and e.comparators[0].value is None:
        return e.left.id
    return None


def _falsy_assigns(g, var):
    """assignments of a falsy constant to `var` or to a local it is copied from (transitively)"""
    names, todo = {var}, [var]
    assigns = []
    for n in g.stmt_nodes():
        a = n.ast
        if isinstance(a, (ast.Assign, ast.AnnAssign)) and getattr(a, "value", None) is not None:
            tg = a.targets if isinstance(a, ast.Assign) else [a.target]
            for t in tg:
                if isinstance(t, ast.Name):
                    assigns.append((t.id, a.value, n))
    while todo:
        v = todo.pop()
        for tname, val, n in assigns:
            if tname == v and isinstance(val, ast.Name) and val.id not in names:
                names.add(val.id)
                todo.append(val.id)
    return [n for tname, val, n in assigns if tname in names and isinstance(val, ast.Constant) and not val.value]


def followed_by(g, a, b):
    """Is every execution of node `a` followed by exactly one execution of node `b` before control
    returns to a's loop head or leaves the function?  Tests between the two are tolerated only when
    they are *flag tests*: a local that is set to a falsy constant on a path that bypasses `a` and
    never between `a` and the test (the `x = None ... if x is not None:` idiom an extracted helper
    leaves behind after inlining).  -> (ok, why)"""
    if not (g.dom(a, b) or g.dom_ps(a, b)):
        return False, "the second call is reachable without the first"
    if g.loop_of(a) is not g.loop_of(b):
        return False, "the two calls are in different loops"
    gs = g.guards(b, entry=a, cut_back=True)
    cut = set()
    for t, label in gs:
        if t.kind != "test":
            return False, "an iteration lies between the two calls"
        v = _flag_var(t.ast)
        if v is None:
            return False, f"the second call is skipped unless `{ast.unparse(t.ast)}` is {label == 'T'}"
        fa = _falsy_assigns(g, v)
        after_a = g.reach_from(a, avoid=(b,), cut=g.back_edges)
        if not fa or any(n in after_a for n in fa):
            return False, f"the second call is skipped when `{v}` is falsy, and `{v}` is not a pure skip flag"
        for m, lab in g.succ[t]:
            if lab != label:
                cut.add((t, m))
    esc = g.reach_from(a, avoid=(b,), cut=cut | set(g.back_edges))
    head = g.loop_of(a)
    if g.exit in esc:
        return False, "a path from the first call leaves the function without the second"
    # back to the loop head without b: follow back edges explicitly
    esc2 = g.reach_from(a, avoid=(b,), cut=cut)
    if head is not None and head in esc2:
        return False, "a path from the first call starts the next iteration without the second"
    return True, ""
