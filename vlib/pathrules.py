"""Reusable path-rule helpers on top of vlib.cfg."""
from __future__ import annotations

import ast

from .src import call_name, names_in, receiver


def assigns_to(node, name):
    """Does this CFG node (re)bind local `name`?"""
    a = node.ast
    if node.kind == "for":
        return name in names_in(a.target)
    if node.kind != "stmt":
        return False
    if isinstance(a, ast.Assign):
        return any(name in {n.id for n in ast.walk(t) if isinstance(n, ast.Name) and isinstance(n.ctx, ast.Store)} for t in a.targets)
    if isinstance(a, (ast.AugAssign, ast.AnnAssign)):
        return isinstance(a.target, ast.Name) and a.target.id == name
    return False


def assigns_attr(node, attr_text):
    """Does this CFG node assign `self.x` (attr_text = 'self.x')?"""
    a = node.ast
    if node.kind != "stmt":
        return False
    ts = []
    if isinstance(a, ast.Assign):
        ts = a.targets
    elif isinstance(a, (ast.AugAssign, ast.AnnAssign)):
        ts = [a.target]
    for t in ts:
        for tt in ast.walk(t):
            if isinstance(tt, ast.Attribute) and isinstance(tt.ctx, ast.Store) and ast.unparse(tt) == attr_text:
                return True
    return False


def is_decrement(node, name):
    a = node.ast
    if node.kind != "stmt":
        return False
    if isinstance(a, ast.AugAssign) and isinstance(a.op, ast.Sub) and ast.unparse(a.target) == name:
        return isinstance(a.value, ast.Constant) and isinstance(a.value.value, int) and a.value.value >= 1
    if isinstance(a, ast.Assign) and len(a.targets) == 1 and ast.unparse(a.targets[0]) == name:
        v = a.value
        if isinstance(v, ast.BinOp) and isinstance(v.op, ast.Sub) and ast.unparse(v.left) == name:
            return isinstance(v.right, ast.Constant) and isinstance(v.right.value, int) and v.right.value >= 1
    return False


def loop_heads(g):
    return {h for _, h in g.back_edges}


def variant(g, head, name):
    """Bounded-loop argument for `while <name> > 0`: every cycle through `head` passes a
    strict decrement of `name`, and nothing else in the loop writes `name`.
    -> (ok, reason)"""
    body = g.loop_body(head)
    decs = [n for n in body if is_decrement(n, name)]
    if not decs:
        return False, f"no decrement of {name} inside the loop"
    if head in g.reach_from(head, avoid=decs):
        return False, f"a loop iteration can complete without decrementing {name}"
    others = [n for n in body if n not in decs and (assigns_to(n, name) if "." not in name else assigns_attr(n, name))]
    if others:
        return False, f"{name} is also written at line {others[0].lineno} inside the loop"
    return True, ""


def head_test_bounds(head, name):
    """Loop test is `<name> > 0` (or equivalent: `0 < name`, `name >= 1`, `name != 0`
    is NOT accepted because a decrement by more than one would skip zero)."""
    t = head.ast
    if not isinstance(t, ast.Compare) or len(t.ops) != 1:
        return False
    l, op, r = ast.unparse(t.left), t.ops[0], ast.unparse(t.comparators[0])
    if l == name and isinstance(op, ast.Gt) and r == "0":
        return True
    if r == name and isinstance(op, ast.Lt) and l == "0":
        return True
    if l == name and isinstance(op, ast.GtE) and r == "1":
        return True
    return False


def calls_named(g, name, nodes=None):
    out = []
    for n in (nodes if nodes is not None else g.stmt_nodes()):
        for c in n.calls():
            if call_name(c) == name:
                out.append((n, c))
    return out


def once_per_iteration(g, head, nodes):
    """Each cycle through `head` executes at most one of `nodes` and none of them sits
    in an inner loop."""
    nodes = list(nodes)
    for n in nodes:
        inner = g.loop_of(n)
        if inner is not head:
            return False, f"send at line {n.lineno} is inside an inner loop"
    for a in nodes:
        # from a, can we reach another send (or a again) without passing head?
        r = g.reach_from(a, avoid=[head])
        for b in nodes:
            if b in r:
                return False, f"two sends (lines {a.lineno}, {b.lineno}) can happen in one iteration"
    return True, ""


def lexically_inside_with(func_node, target, pred):
    """Is AST node `target` inside a With/AsyncWith of func_node whose some item's
    context expression satisfies pred(expr)?"""
    found = []

    def visit(n, inside):
        if n is target:
            found.append(inside)
            return
        if isinstance(n, (ast.With, ast.AsyncWith)):
            ins = inside or any(pred(it.context_expr, n) for it in n.items)
            for it in n.items:
                visit(it.context_expr, inside)
            for s in n.body:
                visit(s, ins)
            return
        for ch in ast.iter_child_nodes(n):
            visit(ch, inside)

    visit(func_node, False)
    return bool(found) and all(found)
