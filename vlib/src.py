"""Program model of /repo/src/geckolib built from `ast` only (nothing is imported).

Provides: module/class/function index, MRO, method resolution, constant folding of the
expressions the rules need (module constants, GeckoConstants.X, b"".join([...]),
tuples, arithmetic on ints), light receiver-type inference for call resolution.
"""
from __future__ import annotations

import ast
import os
from pathlib import Path

from .core import AnalysisError, repo_root

PKG = "src/geckolib"


class FuncInfo:
    def __init__(self, node, cls, mod):
        self.node = node
        self.cls = cls  # ClassInfo or None
        self.mod = mod
        self.name = node.name
        self.is_async = isinstance(node, ast.AsyncFunctionDef)

    @property
    def qual(self):
        return f"{self.cls.name}.{self.name}" if self.cls else self.name

    @property
    def loc(self):
        return f"{self.mod.rel}:{self.node.lineno}"

    def decorators(self):
        out = self.__dict__.get("_decorators")
        if out is None:
            out = self.__dict__["_decorators"] = [ast.unparse(d) for d in self.node.decorator_list]
        return out

    @property
    def is_property(self):
        d = self.decorators()
        return "property" in d or "cached_property" in d or "functools.cached_property" in d

    @property
    def is_static(self):
        return "staticmethod" in self.decorators()

    def __repr__(self):
        return f"<Func {self.qual} @{self.loc}>"


class ClassInfo:
    def __init__(self, node, mod, outer=None):
        self.node = node
        self.mod = mod
        self.outer = outer
        self.name = node.name if outer is None else f"{outer.name}.{node.name}"
        self.short = node.name
        self.bases = [ast.unparse(b) for b in node.bases]
        self.methods = {}
        self.setters = {}
        self.consts = {}  # class-body simple assignments name -> ast expr
        self.inner = {}
        for st in node.body:
            if isinstance(st, (ast.FunctionDef, ast.AsyncFunctionDef)):
                fi = FuncInfo(st, self, mod)
                if any(d.endswith(".setter") for d in fi.decorators()):
                    self.setters[st.name] = fi
                else:
                    self.methods[st.name] = fi
            elif isinstance(st, ast.Assign):
                for t in st.targets:
                    for nm, val in _unpack_targets(t, st.value):
                        self.consts[nm] = val
            elif isinstance(st, ast.AnnAssign) and st.value is not None:
                if isinstance(st.target, ast.Name):
                    self.consts[st.target.id] = st.value
            elif isinstance(st, ast.ClassDef):
                ci = ClassInfo(st, mod, self)
                self.inner[st.name] = ci

    @property
    def loc(self):
        return f"{self.mod.rel}:{self.node.lineno}"

    def __repr__(self):
        return f"<Class {self.name}>"


def _unpack_targets(target, value):
    """Yield (name, value-expr) for `a = v`, `(a, b) = (x, y)` and the
    `X = (a, b, c) = range(n)` idiom (yielding ints as ast.Constant)."""
    if isinstance(target, ast.Name):
        yield target.id, value
    elif isinstance(target, (ast.Tuple, ast.List)):
        elts = target.elts
        if isinstance(value, (ast.Tuple, ast.List)) and len(value.elts) == len(elts):
            for t, v in zip(elts, value.elts):
                yield from _unpack_targets(t, v)
        elif (
            isinstance(value, ast.Call)
            and isinstance(value.func, ast.Name)
            and value.func.id == "range"
            and len(value.args) == 1
            and isinstance(value.args[0], ast.Constant)
        ):
            for i, t in enumerate(elts):
                if isinstance(t, ast.Name):
                    yield t.id, ast.Constant(value=i)


class Mod:
    def __init__(self, path: Path, rel: str, renames=None):
        self.path = path
        self.rel = rel
        self.source = path.read_text(encoding="utf-8")
        try:
            self.tree = ast.parse(self.source, filename=str(path))
        except SyntaxError as e:
            raise AnalysisError(f"{rel}: does not parse: {e}")
        from .matchlower import lower_matches
        lower_matches(self.tree)      # `match` read as the if / elif ladder it abbreviates (one form for every rule)
        from .matchlower import lower_annotations
        lower_annotations(self.tree)  # `x: T = v` outside class bodies read as `x = v` (one form for every rule)
        if renames:
            from .normalize import apply_attribute_renames

            apply_attribute_renames(self.tree, renames)
        self.inlined_sites = 0
        self.inlined_helpers = set()
        self.dropped_functions = {}   # module-level helpers removed from the analysed tree; still callable from other modules
        if os.environ.get("VERIF_NO_NORMALIZE") != "1":
            from .normalize import imported_private_helpers, normalize_module

            self.inlined_sites, self.inlined_helpers = normalize_module(self.tree, imported_private_helpers(self.tree, path, renames))
            if self.inlined_helpers:
                self._drop_dead_helpers()
        self.classes = {}
        self.functions = {}
        for st in getattr(self, "_dropped", ()):
            if st.name not in self.dropped_functions:
                self.dropped_functions[st.name] = FuncInfo(st, None, self)
        self.consts = {}
        self.imports = {}  # local name -> (module rel-ish, original name)
        for st in self.tree.body:
            self._top(st)

    def _drop_dead_helpers(self):
        """Remove helper definitions whose every call site was inlined (they are dead
        code for the analysis; keeping them would double-count their statements)."""
        names = {h.split(".")[-1] for h in self.inlined_helpers}

        def refs(tree, skip):
            out = set()
            for n in ast.walk(tree):
                if n in skip:
                    continue
                if isinstance(n, ast.Attribute) and n.attr in names:
                    out.add(n.attr)
                elif isinstance(n, ast.Name) and n.id in names and isinstance(n.ctx, ast.Load):
                    out.add(n.id)
            return out

        defs = [n for n in ast.walk(self.tree) if isinstance(n, (ast.FunctionDef, ast.AsyncFunctionDef)) and n.name in names]
        inside = set()
        for d in defs:
            for n in ast.walk(d):
                inside.add(n)
        live = refs(self.tree, inside)
        dead = names - live

        def prune(body):
            return [st for st in body if not (isinstance(st, (ast.FunctionDef, ast.AsyncFunctionDef)) and st.name in dead)]

        self._dropped = [st for st in self.tree.body if isinstance(st, (ast.FunctionDef, ast.AsyncFunctionDef)) and st.name in dead]
        self.tree.body = prune(self.tree.body)
        for n in ast.walk(self.tree):
            if isinstance(n, ast.ClassDef):
                n.body = prune(n.body) or [ast.Pass()]

    def _top(self, st):
        if isinstance(st, ast.ClassDef):
            ci = ClassInfo(st, self)
            self.classes[st.name] = ci
        elif isinstance(st, (ast.FunctionDef, ast.AsyncFunctionDef)):
            self.functions[st.name] = FuncInfo(st, None, self)
        elif isinstance(st, ast.Assign):
            for t in st.targets:
                if isinstance(t, ast.Attribute) and isinstance(t.value, ast.Name) and t.value.id in self.classes:
                    # `Cls.TABLE = {...}` after the class body (an Enum cannot hold a plain table in its body): a class attribute
                    self.classes[t.value.id].consts.setdefault(t.attr, st.value)
                    self.classes[t.value.id].late_attrs = getattr(self.classes[t.value.id], "late_attrs", set()) | {t.attr}
                    continue
                for nm, val in _unpack_targets(t, st.value):
                    self.consts[nm] = val
        elif isinstance(st, ast.AnnAssign) and st.value is not None:
            if isinstance(st.target, ast.Name):
                self.consts[st.target.id] = st.value
            elif isinstance(st.target, ast.Attribute) and isinstance(st.target.value, ast.Name) and st.target.value.id in self.classes:
                self.classes[st.target.value.id].consts.setdefault(st.target.attr, st.value)
                self.classes[st.target.value.id].late_attrs = getattr(self.classes[st.target.value.id], "late_attrs", set()) | {st.target.attr}
        elif isinstance(st, ast.ImportFrom):
            for a in st.names:
                self.imports[a.asname or a.name] = (st.level, st.module, a.name)
        elif isinstance(st, ast.If):
            # if TYPE_CHECKING: imports
            for s in st.body:
                self._top(s)


class Repo:
    def __init__(self, root: Path | None = None):
        self.root = Path(root) if root else repo_root()
        self.pkg = self.root / PKG
        if not self.pkg.is_dir():
            raise AnalysisError(f"{self.pkg} not found")
        self._mods = {}
        self._classes = None

    # ---- modules ----------------------------------------------------------
    def code_files(self):
        out = []
        for dp, dn, fn in os.walk(self.pkg):
            if "packs" in Path(dp).parts:
                continue
            dn.sort()
            for f in sorted(fn):
                if f.endswith(".py"):
                    out.append(Path(dp) / f)
        return out

    def mod(self, rel: str) -> Mod:
        """rel is relative to src/geckolib, e.g. 'driver/accessor.py'."""
        if rel not in self._mods:
            p = self.pkg / rel
            if not p.exists():
                raise AnalysisError(f"anchor file vanished: {PKG}/{rel}")
            self._mods[rel] = Mod(p, f"{PKG}/{rel}", self._renames())
        return self._mods[rel]

    def _renames(self):
        """Audited names of private attributes that were renamed since (see vlib.normalize)."""
        if getattr(self, "_ren", None) is None:
            self._ren = {}
            if os.environ.get("VERIF_NO_NORMALIZE") != "1":
                from .normalize import attribute_renames

                trees = []
                for f in self.code_files():
                    try:
                        trees.append(ast.parse(f.read_text(encoding="utf-8")))
                    except SyntaxError:
                        pass
                self._ren = attribute_renames(trees)
        return self._ren

    def all_mods(self):
        for p in self.code_files():
            rel = str(p.relative_to(self.pkg))
            yield self.mod(rel)

    # ---- classes ----------------------------------------------------------
    def classes(self):
        if self._classes is None:
            idx = {}
            for m in self.all_mods():
                for c in m.classes.values():
                    self._add_class(idx, c)
            self._classes = idx
        return self._classes

    def _add_class(self, idx, c):
        idx.setdefault(c.short, []).append(c)
        if c.outer is not None:
            idx.setdefault(c.name, []).append(c)
        for i in c.inner.values():
            self._add_class(idx, i)

    def cls(self, name, required=True):
        cs = self.classes().get(name, [])
        if len(cs) == 1:
            return cs[0]
        if not cs:
            if required:
                raise AnalysisError(f"anchor class vanished: {name}")
            return None
        raise AnalysisError(f"class name {name} is ambiguous: {[c.loc for c in cs]}")

    def mro(self, c: ClassInfo):
        cache = self.__dict__.setdefault("_mro_cache", {})
        r = cache.get(id(c))
        if r is None:
            r = cache[id(c)] = self._mro(c)
        return list(r)

    def _mro(self, c: ClassInfo):
        out, seen = [], set()

        def walk(ci):
            if ci.name in seen:
                return
            seen.add(ci.name)
            out.append(ci)
            for b in ci.bases:
                b = b.split(".")[-1]
                for cand in self.classes().get(b, []):
                    walk(cand)

        walk(c)
        return out

    def subclasses(self, base_name):
        out = []
        for lst in self.classes().values():
            for c in lst:
                if c in out:
                    continue
                if any(m.short == base_name for m in self.mro(c)[1:]):
                    out.append(c)
        return out

    def all_methods(self, cname_or_cls):
        """name -> FuncInfo of every method an instance of the class has from the package (its own body first, then
        mixins / bases in MRO order)"""
        c = self.cls(cname_or_cls) if isinstance(cname_or_cls, str) else cname_or_cls
        out = {}
        for k in self.mro(c):
            for nm, f in k.methods.items():
                out.setdefault(nm, f)
        return out

    def instance_cls(self, c):
        """the class whose instances run a method defined in `c`: a mixin / hoisted base with exactly one most-derived
        descendant in the package stands for that descendant (its class constants and sibling methods live there)"""
        if c is None:
            return None
        subs = self.subclasses(c.short)
        if not subs:
            return c
        leaves = [k for k in subs if not self.subclasses(k.short)]
        return leaves[0] if len(leaves) == 1 else c

    def method(self, cname, mname, required=True) -> FuncInfo | None:
        c = self.cls(cname, required)
        if c is None:
            return None
        for k in self.mro(c):
            if mname in k.methods:
                return k.methods[mname]
        if required:
            raise AnalysisError(f"anchor method vanished: {cname}.{mname}")
        return None

    def own_method(self, cname, mname, required=True):
        c = self.cls(cname, required)
        if c is None:
            return None
        if mname in c.methods:
            return c.methods[mname]
        # hoisted into a base class of the package: the inherited definition is what runs for this class
        for k in self.mro(c)[1:]:
            if mname in k.methods:
                return k.methods[mname]
        if required:
            raise AnalysisError(f"anchor method vanished: {cname}.{mname}")
        return None

    def func(self, qual, required=True) -> FuncInfo | None:
        """'Class.method' (through MRO) or 'module.py:function'."""
        if ":" in qual:
            rel, fn = qual.split(":")
            m = self.mod(rel)
            if fn in m.functions:
                return m.functions[fn]
            if required:
                raise AnalysisError(f"anchor function vanished: {qual}")
            return None
        cname, mname = qual.rsplit(".", 1)
        return self.method(cname, mname, required)

    def definers(self, mname):
        """All classes defining method mname (own body)."""
        out = []
        for lst in self.classes().values():
            for c in lst:
                if mname in c.methods and c not in out:
                    out.append(c)
        return out

    def all_functions(self):
        seen = set()
        for m in self.all_mods():
            for f in m.functions.values():
                yield f
            stack = list(m.classes.values())
            while stack:
                c = stack.pop()
                if id(c) in seen:
                    continue
                seen.add(id(c))
                for f in c.methods.values():
                    yield f
                for f in c.setters.values():
                    yield f
                stack.extend(c.inner.values())

    # ---- constants --------------------------------------------------------
    def class_const(self, cname, attr):
        c = self.cls(cname, required=False)
        if c is None:
            return None
        for k in self.mro(c):
            if attr in k.consts:
                return k.consts[attr], k
        return None

    def fold(self, expr, mod: Mod | None = None, cls: ClassInfo | None = None, env=None, depth=0):
        """Constant-fold expr; returns python value or raises Unfoldable."""
        if depth > 12:
            raise Unfoldable("depth")
        f = lambda e: self.fold(e, mod, cls, env, depth + 1)  # noqa: E731
        if isinstance(expr, ast.Constant):
            return expr.value
        if isinstance(expr, ast.Name):
            if env and expr.id in env:
                return env[expr.id]
            if cls is not None:
                for k in self.mro(cls):
                    if expr.id in k.consts:
                        return self.fold(k.consts[expr.id], k.mod, k, env, depth + 1)
            if mod is not None and expr.id in mod.consts:
                return self.fold(mod.consts[expr.id], mod, None, env, depth + 1)
            if mod is not None and expr.id in mod.imports:
                tm = self._import_target(mod, expr.id)
                if tm is not None:
                    m2, nm = tm
                    if nm is not None and nm in m2.consts:
                        return self.fold(m2.consts[nm], m2, None, env, depth + 1)
            if mod is None and cls is None:
                # no context given: a module-level constant that is defined in exactly one module
                hits = self._const_index().get(expr.id, [])
                if len(hits) == 1:
                    return self.fold(hits[0].consts[expr.id], hits[0], None, env, depth + 1)
            raise Unfoldable(f"name {expr.id}")
        if isinstance(expr, ast.Attribute):
            base = expr.value
            if isinstance(base, ast.Name):
                # ClassName.ATTR  (GeckoConstants.X, GeckoUdpSocket._PORT)
                if base.id in ("self", "cls") and cls is not None:
                    r = None
                    for k in self.mro(cls):
                        if expr.attr in k.consts:
                            r = (k.consts[expr.attr], k)
                            break
                    if r:
                        return self.fold(r[0], r[1].mod, r[1], env, depth + 1)
                    raise Unfoldable(f"self.{expr.attr}")
                if mod is not None and base.id in mod.classes:
                    # a class of this very module (a private namespace class the module defines for itself)
                    for k in self.mro(mod.classes[base.id]):
                        if expr.attr in k.consts:
                            return self.fold(k.consts[expr.attr], k.mod, k, env, depth + 1)
                cs = self.classes().get(base.id, [])
                if len(cs) == 1:
                    r = self.class_const(base.id, expr.attr)
                    if r:
                        return self.fold(r[0], r[1].mod, r[1], env, depth + 1)
                # GeckoConfig.X is a runtime-mutable table: not a constant
            raise Unfoldable(ast.unparse(expr))
        if isinstance(expr, (ast.Tuple, ast.List)):
            vals = [f(e) for e in expr.elts]
            return tuple(vals) if isinstance(expr, ast.Tuple) else vals
        if isinstance(expr, ast.Dict):
            return {f(k): f(v) for k, v in zip(expr.keys, expr.values)}
        if isinstance(expr, ast.BinOp):
            l, r = f(expr.left), f(expr.right)
            ops = {
                ast.Add: lambda a, b: a + b,
                ast.Sub: lambda a, b: a - b,
                ast.Mult: lambda a, b: a * b,
                ast.FloorDiv: lambda a, b: a // b,
                ast.Div: lambda a, b: a / b,
                ast.Mod: lambda a, b: a % b,
                ast.LShift: lambda a, b: a << b,
                ast.RShift: lambda a, b: a >> b,
                ast.BitOr: lambda a, b: a | b,
                ast.BitAnd: lambda a, b: a & b,
            }
            for k, fn in ops.items():
                if isinstance(expr.op, k):
                    return fn(l, r)
            raise Unfoldable("binop")
        if isinstance(expr, ast.UnaryOp):
            v = f(expr.operand)
            if isinstance(expr.op, ast.USub):
                return -v
            if isinstance(expr.op, ast.Not):
                return not v
            if isinstance(expr.op, ast.Invert):
                return ~v
            raise Unfoldable("unary")
        if isinstance(expr, ast.Call):
            fn = expr.func
            # b"".join([...])
            if (
                isinstance(fn, ast.Attribute)
                and fn.attr == "join"
                and isinstance(fn.value, ast.Constant)
                and len(expr.args) == 1
            ):
                parts = f(expr.args[0])
                return fn.value.value.join(parts)
            if isinstance(fn, ast.Name) and fn.id == "range":
                return list(range(*[f(a) for a in expr.args]))
            if isinstance(fn, ast.Name) and fn.id == "len" and len(expr.args) == 1:
                return len(f(expr.args[0]))
            if isinstance(fn, ast.Attribute) and fn.attr in ("lower", "upper") and not expr.args:
                return getattr(f(fn.value), fn.attr)()
            if isinstance(fn, ast.Attribute) and fn.attr == "format":
                base = f(fn.value)
                return base.format(*[f(a) for a in expr.args])
            if isinstance(fn, ast.Attribute) and fn.attr == "encode":
                base = f(fn.value)
                return base.encode(*[f(a) for a in expr.args])
            raise Unfoldable("call " + ast.unparse(expr)[:40])
        if isinstance(expr, ast.JoinedStr):
            out = ""
            for v in expr.values:
                if isinstance(v, ast.Constant):
                    out += v.value
                else:
                    raise Unfoldable("fstring hole")
            return out
        raise Unfoldable(type(expr).__name__)

    def _const_index(self):
        if getattr(self, "_cidx", None) is None:
            idx = {}
            for m in self.all_mods():
                for k in m.consts:
                    idx.setdefault(k, []).append(m)
            self._cidx = idx
        return self._cidx

    def try_fold(self, expr, mod=None, cls=None, env=None, default=None):
        try:
            return self.fold(expr, mod, cls, env)
        except Unfoldable:
            return default

    def _import_target(self, mod: Mod, local, _depth=0):
        level, module, name = mod.imports[local]
        # resolve relative to mod
        base = Path(mod.rel).parent
        relbase = Path(str(base)[len(PKG):].lstrip("/"))
        if level == 0:
            if not module or not module.startswith("geckolib"):
                return None
            parts = module.split(".")[1:]
            d = Path(*parts) if parts else Path(".")
        else:
            d = relbase
            for _ in range(level - 1):
                d = d.parent
            if module:
                d = d / Path(*module.split("."))
        for cand in (f"{d}.py", f"{d}/__init__.py"):
            cand = str(Path(cand))
            if (self.pkg / cand).exists():
                try:
                    m2 = self.mod(cand)
                except AnalysisError:
                    return None
                if name in m2.consts or name in m2.classes or name in m2.functions or name in getattr(m2, "dropped_functions", {}):
                    return m2, name
                # `from . import helpers`: the name is a sub-module of the package -> (module, None)
                if cand.endswith("__init__.py"):
                    for sub in (f"{d}/{name}.py", f"{d}/{name}/__init__.py"):
                        sub = str(Path(sub))
                        if (self.pkg / sub).exists():
                            try:
                                return self.mod(sub), None
                            except AnalysisError:
                                return None
                # re-exported: the module imports the name itself (`from .impl import X` in the old home of X)
                if name in m2.imports and _depth < 6 and m2 is not mod:
                    r = self._import_target(m2, name, _depth + 1)
                    if r is not None:
                        return r
                return m2, name
        return None


class Unfoldable(Exception):
    pass


# ---------------------------------------------------------------------------
# small AST helpers used by rules
# ---------------------------------------------------------------------------

def walk_no_nested(node):
    """ast.walk that does not descend into nested function/lambda/class bodies
    (the root itself may be a function)."""
    stack = [node]
    first = True
    while stack:
        n = stack.pop()
        if not first and isinstance(
            n, (ast.FunctionDef, ast.AsyncFunctionDef, ast.Lambda, ast.ClassDef)
        ):
            yield n  # yield the def itself but not its body
            continue
        first = False
        yield n
        stack.extend(reversed(list(ast.iter_child_nodes(n))))


def calls_in(node, nested=False):
    it = ast.walk(node) if nested else walk_no_nested(node)
    return [n for n in it if isinstance(n, ast.Call)]


def call_name(call: ast.Call):
    """Last component of the callee: f() -> f ; a.b.c() -> c"""
    f = call.func
    if isinstance(f, ast.Attribute):
        return f.attr
    if isinstance(f, ast.Name):
        return f.id
    return None


def receiver(call: ast.Call):
    f = call.func
    if isinstance(f, ast.Attribute):
        return ast.unparse(f.value)
    return None


def has_await(node):
    for n in walk_no_nested(node):
        if isinstance(n, (ast.Await, ast.AsyncWith, ast.AsyncFor)):
            return True
    return False


def names_in(node):
    return {n.id for n in ast.walk(node) if isinstance(n, ast.Name)}


def attr_chain(node):
    """a.b.c -> ['a','b','c'] or None"""
    out = []
    while isinstance(node, ast.Attribute):
        out.append(node.attr)
        node = node.value
    if isinstance(node, ast.Name):
        out.append(node.id)
        return list(reversed(out))
    return None


def strip_doc_and_logging(body):
    """Drop docstrings and logging/print statements from a statement list (deep)."""
    out = []
    for st in body:
        if isinstance(st, ast.Expr):
            v = st.value
            if isinstance(v, ast.Constant) and isinstance(v.value, str):
                continue
            if isinstance(v, ast.Call) and is_logging_call(v):
                continue
        out.append(st)
    return out


class _DeepStrip(ast.NodeTransformer):
    def _clean(self, body):
        out = []
        for st in body:
            if isinstance(st, ast.Expr):
                v = st.value
                if isinstance(v, ast.Constant) and isinstance(v.value, str):
                    continue
                if isinstance(v, ast.Call) and is_logging_call(v):
                    continue
            if isinstance(st, ast.Assert):
                continue
            st = self.visit(st)
            out.append(st)
        return out

    def generic_visit(self, node):
        for fld in ("body", "orelse", "finalbody"):
            b = getattr(node, fld, None)
            if isinstance(b, list) and b and isinstance(b[0], ast.stmt):
                nb = self._clean(b)
                if fld == "body" and not nb:
                    nb = [ast.Pass()]
                setattr(node, fld, nb)
        for h in getattr(node, "handlers", []) or []:
            h.body = self._clean(h.body) or [ast.Pass()]
        return node


class _ConstSubst(ast.NodeTransformer):
    def __init__(self, consts):
        self.consts = consts

    def visit_Name(self, node):
        v = self.consts.get(node.id)
        if isinstance(node.ctx, ast.Load) and isinstance(v, (ast.Constant, ast.Tuple)) and node.id.startswith("_"):
            import copy

            return copy.deepcopy(v)
        return node


def const_text(fi):
    """Source text of a function with private module-level literal constants substituted
    (so that `_MARKER in line` reads `'Snapshot' in line`)."""
    import copy

    return ast.unparse(_ConstSubst(fi.mod.consts).visit(copy.deepcopy(fi.node)))


class _Alpha(ast.NodeTransformer):
    """Rename locally bound names (assignment/for/comprehension targets) to v0, v1, ...
    in order of first binding, so that two functions that differ only in the names of
    their locals compare equal."""

    def __init__(self, keep):
        self.map = {}
        self.keep = keep

    def _name(self, n):
        if n in self.keep:
            return n
        if n not in self.map:
            self.map[n] = f"v{len(self.map)}"
        return self.map[n]

    def visit_Name(self, node):
        if isinstance(node.ctx, (ast.Store, ast.Del)):
            return ast.copy_location(ast.Name(id=self._name(node.id), ctx=node.ctx), node)
        if node.id in self.map:
            return ast.copy_location(ast.Name(id=self.map[node.id], ctx=node.ctx), node)
        return node

    def _comp(self, node):
        for g in node.generators:
            g.target = self.visit(g.target)
            g.iter = self.visit(g.iter)
            g.ifs = [self.visit(i) for i in g.ifs]
        for f in ("elt", "key", "value"):
            if hasattr(node, f):
                setattr(node, f, self.visit(getattr(node, f)))
        return node

    visit_ListComp = visit_SetComp = visit_DictComp = visit_GeneratorExp = _comp


def alpha_text(fi):
    body = deep_strip(fi.node.body)
    a = fi.node.args
    keep = {p.arg for p in a.posonlyargs + a.args + a.kwonlyargs}
    tr = _Alpha(keep)
    cs = _ConstSubst(fi.mod.consts)
    return "\n".join(ast.unparse(tr.visit(cs.visit(s))) for s in body)


def deep_strip(body):
    """Deep copy of a statement list without docstrings, logging/print calls and asserts
    (recursively, inside if/for/while/try/with bodies too)."""
    import copy

    mod = ast.Module(body=copy.deepcopy(list(body)), type_ignores=[])
    mod.body = _DeepStrip()._clean(mod.body)
    return mod.body


LOGGER_NAMES = {"_LOGGER", "logger", "logging", "LOGGER", "_logger"}


def is_logging_call(call: ast.Call):
    f = call.func
    if isinstance(f, ast.Attribute):
        ch = attr_chain(f)
        if ch and ch[0] in LOGGER_NAMES:
            return True
    if isinstance(f, ast.Name) and f.id == "print":
        return True
    return False
