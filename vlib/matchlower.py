"""`match` statements read as the if / elif ladder they abbreviate.

Applied when a module is parsed (before normalisation, CFG construction or interpretation), so every rule and the
interpreter see one form.  Python's semantics kept: the subject is evaluated once (a temporary unless it is a plain
name / attribute chain / constant subscript of one - re-reading those is the same value), cases are tried in order, value
patterns compare with ==, singletons with `is`, captures bind before the guard runs, no case matching means nothing
happens.  Class patterns with positional sub-patterns on classes other than the builtin scalars need __match_args__
and are left alone (the CFG builder then reports the statement as unsupported).
"""
from __future__ import annotations

import ast

_SCALARS = {"int", "str", "bytes", "bytearray", "float", "bool", "list", "tuple", "dict", "set", "frozenset"}


class Unsupported(Exception):
    pass


def _pure(e):
    if isinstance(e, (ast.Name, ast.Constant)):
        return True
    if isinstance(e, ast.Attribute):
        return _pure(e.value)
    if isinstance(e, ast.Subscript):
        sl = e.slice
        ok = isinstance(sl, ast.Constant) or (isinstance(sl, ast.Slice) and all(x is None or isinstance(x, ast.Constant) for x in (sl.lower, sl.upper, sl.step)))
        return ok and _pure(e.value)
    if isinstance(e, ast.Tuple):
        return all(_pure(x) for x in e.elts)
    return False


def _and(parts):
    parts = [p for p in parts if not (isinstance(p, ast.Constant) and p.value is True)]
    if not parts:
        return ast.Constant(value=True)
    if len(parts) == 1:
        return parts[0]
    flat = []
    for p in parts:
        flat.extend(p.values if isinstance(p, ast.BoolOp) and isinstance(p.op, ast.And) else [p])
    return ast.BoolOp(op=ast.And(), values=flat)


def _bind(name, value):
    """an expression that binds and is true: `[name := value]`"""
    return ast.List(elts=[ast.NamedExpr(target=ast.Name(id=name, ctx=ast.Store()), value=value)], ctx=ast.Load())


def _call(fn, *args):
    return ast.Call(func=ast.Name(id=fn, ctx=ast.Load()), args=list(args), keywords=[])


def cond(p, subj):
    """test expression for pattern p against the (re-readable) subject expression subj"""
    import copy
    S = lambda: copy.deepcopy(subj)  # noqa: E731
    if isinstance(p, ast.MatchValue):
        return ast.Compare(left=S(), ops=[ast.Eq()], comparators=[p.value])
    if isinstance(p, ast.MatchSingleton):
        return ast.Compare(left=S(), ops=[ast.Is()], comparators=[ast.Constant(value=p.value)])
    if isinstance(p, ast.MatchOr):
        alts = [cond(q, subj) for q in p.patterns]
        if all(isinstance(a, ast.Compare) and len(a.ops) == 1 and isinstance(a.ops[0], ast.Eq) and ast.dump(a.left) == ast.dump(subj) for a in alts) and len(alts) > 1:
            # `case A | B | C` on values: the familiar `subject in (A, B, C)`
            return ast.Compare(left=S(), ops=[ast.In()], comparators=[ast.Tuple(elts=[a.comparators[0] for a in alts], ctx=ast.Load())])
        return ast.BoolOp(op=ast.Or(), values=alts)
    if isinstance(p, ast.MatchAs):
        parts = [] if p.pattern is None else [cond(p.pattern, subj)]
        if p.name is not None:
            parts.append(_bind(p.name, S()))
        return _and(parts)
    if isinstance(p, ast.MatchSequence):
        star = [i for i, q in enumerate(p.patterns) if isinstance(q, ast.MatchStar)]
        n = len(p.patterns)
        if isinstance(subj, ast.Tuple) and not star:
            # `match (a, b): case (X, Y):` - a tuple display against a fixed-length pattern: element by element
            if len(subj.elts) != n:
                return ast.Constant(value=False)
            return _and([cond(q, e) for q, e in zip(p.patterns, subj.elts)])
        parts = [_call("isinstance", S(), ast.Tuple(elts=[ast.Name(id="list", ctx=ast.Load()), ast.Name(id="tuple", ctx=ast.Load())], ctx=ast.Load()))]
        ln = _call("len", S())
        if not star:
            parts.append(ast.Compare(left=ln, ops=[ast.Eq()], comparators=[ast.Constant(value=n)]))
        else:
            parts.append(ast.Compare(left=ln, ops=[ast.GtE()], comparators=[ast.Constant(value=n - 1)]))
        for i, q in enumerate(p.patterns):
            if isinstance(q, ast.MatchStar):
                if q.name is not None:
                    after = n - 1 - i
                    sl = ast.Slice(lower=ast.Constant(value=i), upper=(ast.UnaryOp(op=ast.USub(), operand=ast.Constant(value=after)) if after else None), step=None)
                    parts.append(_bind(q.name, _call("list", ast.Subscript(value=S(), slice=sl, ctx=ast.Load()))))
                continue
            idx = i if not star or i < star[0] else i - n
            parts.append(cond(q, ast.Subscript(value=S(), slice=ast.Constant(value=idx), ctx=ast.Load())))
        return _and(parts)
    if isinstance(p, ast.MatchMapping):
        parts = [_call("isinstance", S(), ast.Name(id="dict", ctx=ast.Load()))]
        for k, q in zip(p.keys, p.patterns):
            parts.append(ast.Compare(left=k, ops=[ast.In()], comparators=[S()]))
            parts.append(cond(q, ast.Subscript(value=S(), slice=k, ctx=ast.Load())))
        if p.rest is not None:
            raise Unsupported("mapping pattern with **rest")
        return _and(parts)
    if isinstance(p, ast.MatchClass):
        parts = [_call("isinstance", S(), p.cls)]
        if p.patterns:
            if not (isinstance(p.cls, ast.Name) and p.cls.id in _SCALARS and len(p.patterns) == 1):
                raise Unsupported("class pattern with positional sub-patterns (needs __match_args__)")
            parts.append(cond(p.patterns[0], subj))
        for a, q in zip(p.kwd_attrs, p.kwd_patterns):
            parts.append(ast.Call(func=ast.Name(id="hasattr", ctx=ast.Load()), args=[S(), ast.Constant(value=a)], keywords=[]))
            parts.append(cond(q, ast.Attribute(value=S(), attr=a, ctx=ast.Load())))
        return _and(parts)
    raise Unsupported(type(p).__name__)


class _Lower(ast.NodeTransformer):
    def __init__(self):
        self.n = 0

    def visit_Match(self, node):
        self.generic_visit(node)
        pre = []
        subj = node.subject
        if not _pure(subj):
            self.n += 1
            tmp = f"__match_subject_{self.n}"
            pre.append(ast.Assign(targets=[ast.Name(id=tmp, ctx=ast.Store())], value=subj))
            subj = ast.Name(id=tmp, ctx=ast.Load())
        try:
            arms = []
            for c in node.cases:
                t = cond(c.pattern, subj)
                if c.guard is not None:
                    t = _and([t, c.guard])
                arms.append((t, c.body))
        except Unsupported:
            return node
        top = None
        for t, body in reversed(arms):
            if isinstance(t, ast.Constant) and t.value is True and top is None:
                top = list(body)            # trailing `case _:` is the else
                continue
            top = [ast.If(test=t, body=list(body), orelse=top if isinstance(top, list) else [])]
        out = pre + (top or [])
        for s in out:
            ast.copy_location(s, node)
            ast.fix_missing_locations(s)
        if not out:
            out = [ast.copy_location(ast.Pass(), node)]
        return out


def lower_matches(tree):
    if any(isinstance(n, ast.Match) for n in ast.walk(tree)):
        _Lower().visit(tree)
        ast.fix_missing_locations(tree)
    return tree


class _AnnLower(ast.NodeTransformer):
    """annotated assignments outside class bodies are the plain assignments they are at run time (`x: int = 1` binds x
    exactly as `x = 1`; a bare `x: int` binds nothing).  Inside a class body they are kept: there an annotation decides
    what a dataclass / NamedTuple / TypedDict takes for a field."""

    def visit_ClassDef(self, node):
        # the class body's own statements stay; functions inside it are lowered
        for st in node.body:
            if isinstance(st, (ast.FunctionDef, ast.AsyncFunctionDef, ast.ClassDef)):
                self.visit(st)
        return node

    def visit_AnnAssign(self, node):
        if node.value is None:
            return ast.copy_location(ast.Pass(), node)
        new = ast.Assign(targets=[node.target], value=node.value, type_comment=None)
        return ast.copy_location(new, node)


def lower_annotations(tree):
    _AnnLower().visit(tree)
    ast.fix_missing_locations(tree)
    return tree
