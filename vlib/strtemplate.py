"""Symbolic string templates: the value of a string-building expression as a sequence of
literal pieces and symbols, after resolving single-definition locals, single-assignment
`self.X` attributes of the enclosing function and uniquely named properties.

Used to decide WHICH table module a lookup names (C18.R8, C19.R5) without running anything:
    f"geckolib.driver.packs.{plateform_key}-log-{self.log_version}"
 -> [lit 'geckolib.driver.packs.', sym 'h.plateform_key.lower()', lit '-log-', sym 'h.log_version']
"""
from __future__ import annotations

import ast
import copy

from .cfg import cfg_of


class Unresolved(Exception):
    pass


def _unique_properties(repo):
    """property name -> FuncInfo, for names that are a property in exactly one (non-table) class
    and never assigned as a plain instance attribute anywhere"""
    cache = getattr(repo, "_uniq_props", None)
    if cache is not None:
        return cache
    props, plain = {}, set()
    for cs in repo.classes().values():
        for c in cs:
            for m in c.methods.values():
                if m.is_property:
                    props.setdefault(m.name, []).append(m)
                for n in ast.walk(m.node):
                    if isinstance(n, ast.Attribute) and isinstance(n.ctx, ast.Store) and isinstance(n.value, ast.Name) and n.value.id == "self":
                        plain.add(n.attr)
    cache = {k: v[0] for k, v in props.items() if len(v) == 1 and k not in plain}
    repo._uniq_props = cache
    return cache


def _single_return(fi):
    body = [s for s in fi.node.body if not (isinstance(s, ast.Expr) and isinstance(s.value, ast.Constant))]
    if len(body) == 1 and isinstance(body[0], ast.Return) and body[0].value is not None:
        return body[0].value
    return None


def resolve(repo, fi, expr, at=None, self_repl=None, depth=8):
    """AST copy of expr with locals / self attributes / unique properties substituted"""
    g = cfg_of(fi)
    sd = g.single_defs()
    props = _unique_properties(repo)
    a_ = fi.node.args
    params = {p.arg for p in a_.posonlyargs + a_.args + a_.kwonlyargs}
    self_assigns = {}
    if self_repl is None:
        for n in g.stmt_nodes():
            a = n.ast
            if isinstance(a, (ast.Assign, ast.AnnAssign)) and getattr(a, "value", None) is not None:
                for t in (a.targets if isinstance(a, ast.Assign) else [a.target]):
                    if isinstance(t, ast.Attribute) and isinstance(t.value, ast.Name) and t.value.id == "self":
                        self_assigns.setdefault(t.attr, []).append((n, a.value))

    def rs(e, d):
        if d <= 0:
            return e
        if isinstance(e, ast.Name) and isinstance(e.ctx, ast.Load):
            if e.id == "self" and self_repl is not None:
                return copy.deepcopy(self_repl)
            if e.id in sd:
                dn, v = sd[e.id]
                if at is None or dn is at or g.dom(dn, at):
                    if isinstance(v, ast.Await):
                        return e
                    return rs(copy.deepcopy(v), d - 1)
            elif e.id not in params:
                v = repo.try_fold(e, fi.mod, fi.cls)
                if isinstance(v, (str, int)) and not isinstance(v, bool):
                    return ast.Constant(value=v)
            return e
        if isinstance(e, ast.Attribute) and isinstance(e.ctx, ast.Load):
            if isinstance(e.value, ast.Name) and e.value.id == "self" and self_repl is None and e.attr in self_assigns:
                sites = self_assigns[e.attr]
                if len(sites) == 1 and (at is None or g.dom(sites[0][0], at)):
                    return rs(copy.deepcopy(sites[0][1]), d - 1)
            if isinstance(e.value, ast.Name) and e.value.id not in params and e.value.id not in sd and e.value.id != "self":
                v = repo.try_fold(e, fi.mod, fi.cls)
                if isinstance(v, (str, int)) and not isinstance(v, bool):
                    return ast.Constant(value=v)
            if isinstance(e.value, ast.Name) and e.value.id == "self" and self_repl is None and e.attr not in self_assigns and e.attr not in props:
                v = repo.try_fold(e, fi.mod, fi.cls)   # a class-level constant read through the instance
                if isinstance(v, (str, int)) and not isinstance(v, bool):
                    return ast.Constant(value=v)
            recv = rs(e.value, d)
            if e.attr in props:
                ret = _single_return(props[e.attr])
                if ret is not None:
                    return resolve(repo, props[e.attr], ret, None, self_repl=recv, depth=d - 1)
            return ast.Attribute(value=recv, attr=e.attr, ctx=ast.Load())
        for f, v in ast.iter_fields(e):
            if isinstance(v, ast.AST):
                setattr(e, f, rs(v, d))
            elif isinstance(v, list):
                setattr(e, f, [rs(x, d) if isinstance(x, ast.AST) else x for x in v])
        return e

    return rs(copy.deepcopy(expr), depth)


def _merge(parts):
    out = []
    for k, v in parts:
        if k == "lit" and out and out[-1][0] == "lit":
            out[-1] = ("lit", out[-1][1] + v)
        elif not (k == "lit" and v == ""):
            out.append((k, v))
    return out


def parts_of(e):
    """resolved AST -> [('lit', s) | ('sym', text)]"""
    if isinstance(e, ast.Constant) and isinstance(e.value, (str, int)) and not isinstance(e.value, bool):
        return [("lit", str(e.value))]
    if isinstance(e, ast.JoinedStr):
        out = []
        for v in e.values:
            if isinstance(v, ast.FormattedValue):
                if v.conversion == -1 and v.format_spec is None:
                    out += parts_of(v.value)
                else:
                    out.append(("sym", ast.unparse(v)))
            else:
                out += parts_of(v)
        return _merge(out)
    if isinstance(e, ast.BinOp) and isinstance(e.op, ast.Add):
        return _merge(parts_of(e.left) + parts_of(e.right))
    if isinstance(e, ast.Call) and isinstance(e.func, ast.Name) and e.func.id == "str" and len(e.args) == 1 and not e.keywords:
        return parts_of(e.args[0])
    if isinstance(e, ast.Call) and isinstance(e.func, ast.Attribute) and e.func.attr in ("lower", "upper") and not e.args and not e.keywords:
        inner = parts_of(e.func.value)
        f = str.lower if e.func.attr == "lower" else str.upper
        return _merge([(k, f(v)) if k == "lit" else (k, v if v.endswith(f".{e.func.attr}()") else f"{v}.{e.func.attr}()") for k, v in inner])
    # "sep".join((a, b, ...)) with a literal separator over a display
    if isinstance(e, ast.Call) and isinstance(e.func, ast.Attribute) and e.func.attr == "join" and isinstance(e.func.value, ast.Constant) \
            and isinstance(e.func.value.value, str) and len(e.args) == 1 and isinstance(e.args[0], (ast.Tuple, ast.List)) and not e.keywords:
        out = []
        for i, x in enumerate(e.args[0].elts):
            if i:
                out.append(("lit", e.func.value.value))
            out += parts_of(x)
        return _merge(out)
    # "..{}..{1}..{name}..".format(...) with plain fields
    if isinstance(e, ast.Call) and isinstance(e.func, ast.Attribute) and e.func.attr == "format" and isinstance(e.func.value, ast.Constant) \
            and isinstance(e.func.value.value, str) and not any(isinstance(a, ast.Starred) for a in e.args) and all(k.arg for k in e.keywords):
        import string
        out, auto = [], 0
        try:
            for lit, field, spec, conv in string.Formatter().parse(e.func.value.value):
                if lit:
                    out.append(("lit", lit))
                if field is None:
                    continue
                if spec or conv:
                    return [("sym", ast.unparse(e))]
                if field == "":
                    arg = e.args[auto]
                    auto += 1
                elif field.isdigit():
                    arg = e.args[int(field)]
                else:
                    arg = next(k.value for k in e.keywords if k.arg == field)
                out += parts_of(arg)
        except (IndexError, StopIteration, ValueError):
            return [("sym", ast.unparse(e))]
        return _merge(out)
    return [("sym", ast.unparse(e))]


def template(repo, fi, expr, at=None):
    return parts_of(resolve(repo, fi, expr, at))


def show(parts):
    return "".join(v if k == "lit" else "{" + v + "}" for k, v in parts)
