"""CLI: ./check <ID>|all [--tier quick|thorough] [--replay path]"""
from __future__ import annotations

import argparse
import importlib
import json
import os
import sys

from .core import run_check, VERIF

ALL = [f"C{n:02d}" for n in range(1, 21)]


def load_rule(pid):
    try:
        return importlib.import_module(f"vlib.rules.{pid.lower()}")
    except ModuleNotFoundError as e:
        if e.name == f"vlib.rules.{pid.lower()}":
            return None
        raise


def run_one(pid, tier, seed, replay=None):
    mod = load_rule(pid)
    if mod is None:
        print(f"ANALYSIS-ERROR property={pid} no check implemented (listed under not_applicable)")
        return 2

    def fn(ctx):
        mod.check(ctx)
        if tier == "thorough":
            if hasattr(mod, "thorough"):
                mod.thorough(ctx)
            from . import selftest

            selftest.run(ctx)

    if replay:
        data = json.loads(open(replay).read())
        print(f"replaying {data.get('rule')} [{data.get('key')}]: {data.get('what')}")
    return run_check(pid, tier, seed, fn)


def _resource_guard():
    """An analysis that runs away (an interpreted loop the step budget does not see, a fixpoint that does not converge)
    must end as ANALYSIS-ERROR, never eat the machine: address space is capped, so the blow-up surfaces as MemoryError
    inside run_check's containment."""
    try:
        import resource
        cap = int(os.environ.get("VERIF_MEM_CAP_MB", "6144")) * 1024 * 1024
        soft, hard = resource.getrlimit(resource.RLIMIT_AS)
        if hard == resource.RLIM_INFINITY or cap < hard:
            resource.setrlimit(resource.RLIMIT_AS, (cap, hard))
    except Exception:  # noqa: BLE001 - platform without rlimits: nothing to guard with
        pass


def main(argv=None):
    _resource_guard()
    ap = argparse.ArgumentParser()
    ap.add_argument("pid")
    ap.add_argument("--tier", default=os.environ.get("VERIF_TIER", "quick"))
    ap.add_argument("--replay", default=None)
    args = ap.parse_args(argv)
    tier = args.tier if args.tier in ("quick", "thorough") else "quick"
    try:
        seed = int(os.environ.get("VERIF_SEED", "0"))
    except ValueError:
        seed = 0
    if args.pid.lower() == "all":
        worst = 0
        for pid in ALL:
            if load_rule(pid) is None:
                continue
            rc = run_one(pid, tier, seed)
            worst = max(worst, rc) if rc != 1 else 1 if worst != 1 else 1
            if rc == 1:
                worst = 1
        return worst
    return run_one(args.pid.upper(), tier, seed, args.replay)


if __name__ == "__main__":
    sys.exit(main())
