"""Handler life-cycle model: GeckoUdpProtocolHandler.retry / loop / handled are *interpreted* on a handler
built by the real constructor, with a model socket and a controlled clock.  The obligations speak about what
happens (how many resends, to whom, when the clock restarts, when failure is reported), not about attribute
names or statement shapes - private attributes may be renamed or regrouped freely.

  retry_obligations(ctx, repo, rule)    counted resends, refusal at zero, re-queue to last_destination, clock restart
  loop_obligations(ctx, repo, rule)     nothing before the timeout; one resend per expiry while budget lasts;
                                        on_retry_failed exactly when the budget is exhausted; default failure
                                        handler flags removal
  builder_keywords(repo, fi)            keyword names that reach the handler constructor from a static builder
                                        (through delegating builders / private helper builders)
"""
from __future__ import annotations

import ast

from .absint import BoundMethod, ClassRef, Interp, Native, Obj, Opaque, PyRaise, Undecided
from .core import AnalysisError

BASE = "GeckoUdpProtocolHandler"


class Model:
    def __init__(self, repo, budget=2, timeout=5):
        self.repo = repo
        self.clock = 0
        self.sends = []
        self.failed = []
        self.interp = Interp(repo)
        self.interp.call_hook = self._hook
        self.sock = Obj(None, {"queue_send": Native(lambda a, k: self.sends.append(tuple(a)), "queue_send")}, name="socket")
        self.on_failed = Native(lambda a, k: self.failed.append(tuple(a)), "on_retry_failed")
        try:
            self.h = self.interp.apply(ClassRef(repo.cls(BASE)), [], {"retry_count": budget, "timeout": timeout, "on_retry_failed": self.on_failed})
        except (PyRaise, Undecided) as e:
            raise AnalysisError(f"{BASE}(retry_count=, timeout=, on_retry_failed=) cannot be constructed by interpretation: {e}")
        self.dest = ("10.0.0.1", 10022)
        self.h.attrs["last_destination"] = self.dest

    def _hook(self, interp, node, callee, args, kwargs):
        if getattr(callee, "name", "") == "time.monotonic":
            return self.clock
        return NotImplemented

    def call(self, name, *args):
        fi = self.repo.method(BASE, name)
        self.interp.steps = 0
        try:
            if fi.is_property:
                return self.interp.call(fi, self.h, [])
            return self.interp.call(fi, self.h, list(args))
        except Undecided as e:
            raise AnalysisError(f"{BASE}.{name}: cannot interpret: {e}")

    def prop(self, name):
        try:
            return self.interp.getattr(self.h, name)
        except Undecided as e:
            raise AnalysisError(f"{BASE}.{name}: cannot interpret: {e}")


def retry_obligations(ctx, repo, rule):
    loc = repo.method(BASE, "retry").loc
    N = 2
    m = Model(repo, budget=N)
    m.clock = 100
    rets, ages = [], []
    for i in range(N + 2):
        try:
            rets.append(m.call("retry", m.sock))
        except PyRaise as e:
            rets.append(f"raises {e.what}")
        ages.append(m.prop("age"))
    ctx.ob(rule, f"{BASE}.retry::counted", rets[:N] == [True] * N and len(m.sends) == N,
           f"{BASE}.retry with a budget of {N}: results {rets}, {len(m.sends)} resend(s) queued - a resend is not paid for by exactly one unit of the retry budget", loc,
           sample={"rule": rule, "budget": N, "results": [str(r) for r in rets], "resends": len(m.sends)})
    ctx.ob(rule, f"{BASE}.retry::refuses-at-zero", rets[N:] == [False, False] and len(m.sends) == N,
           f"{BASE}.retry with an exhausted budget returns {rets[N:]} and has queued {len(m.sends)} resend(s) for a budget of {N}: it does not refuse exactly when the budget is 0", loc)
    ok = bool(m.sends) and all(len(s) == 2 and s[0] is m.h and s[1] == m.dest for s in m.sends)
    ctx.ob(rule, f"{BASE}.retry::requeues-to-last-destination", ok,
           f"{BASE}.retry queues {[(type(s[0]).__name__, s[1:]) for s in m.sends]}: not (this handler, its last destination)", loc)
    ctx.ob(rule, f"{BASE}.retry::restarts-timeout", ages[0] == 0,
           f"{BASE}.retry at clock 100 leaves age {ages[0]!r}: the timeout is not restarted, the handler would retry again on every engine pass", loc)
    # the budget is spent for good: datagrams handled in between (segments of a damaged multi-segment reply pass through
    # handled() before the transfer asks for a resend) do not buy resends back
    m3 = Model(repo, budget=N)
    got = []
    for i in range(N + 2):
        try:
            m3.call("handled", ("10.0.0.1", 10022))
            got.append(m3.call("retry", m3.sock))
        except PyRaise as e:
            got.append(f"raises {e.what}")
    ctx.ob(rule, f"{BASE}.retry::budget-not-refilled-by-replies", got == [True] * N + [False, False] and len(m3.sends) == N,
           f"{BASE} with a budget of {N}: handled() followed by retry(), {N + 2} times, gives {got} and {len(m3.sends)} resend(s): a reply that is handled refills the retry budget, "
           f"so a transfer whose every attempt delivers a damaged segment chain is re-requested without bound", repo.method(BASE, "handled").loc)
    # without a socket (async use) the budget is still counted
    m2 = Model(repo, budget=1)
    r = [m2.call("retry", None), m2.call("retry", None)]
    ctx.ob(rule, f"{BASE}.retry::counted-without-socket", r == [True, False], f"{BASE}.retry(None) with a budget of 1 returns {r}", loc)


def loop_obligations(ctx, repo, rule):
    loc = repo.method(BASE, "loop").loc
    N, T = 1, 5
    m = Model(repo, budget=N, timeout=T)
    trace = []
    for clock in (1, T, T + 1, T + 2, 2 * T + 2, 3 * T + 3):
        m.clock = clock
        try:
            m.call("loop", m.sock)
        except PyRaise as e:
            trace.append((clock, f"raises {e.what}"))
            continue
        trace.append((clock, len(m.sends), len(m.failed)))
    # expiry is `age > timeout`: nothing at 1 and 5; resend at 6 (clock restarts); nothing at 7; budget exhausted at 12 -> failure
    want = [(1, 0, 0), (T, 0, 0), (T + 1, 1, 0), (T + 2, 1, 0), (2 * T + 2, 1, 1)]
    ctx.ob(rule, f"{BASE}.loop::retry-only-after-timeout", trace[:4] == want[:4],
           f"{BASE}.loop with timeout {T}, budget {N}: (clock, resends, failures) = {trace[:4]}, expected {want[:4]} - a resend must happen exactly when the timeout has expired", loc,
           sample={"rule": rule, "trace": [list(map(str, t)) for t in trace]})
    ctx.ob(rule, f"{BASE}.loop::failure-only-when-refused", trace[4:5] == want[4:5] and all(len(f) == 2 and f[0] is m.h and f[1] is m.sock for f in m.failed),
           f"{BASE}.loop after the budget is used up: {trace[4:]}, failure callbacks {len(m.failed)} - on_retry_failed(handler, socket) must be called exactly when retry() refused", loc)
    # the default failure handler flags removal
    m3 = Model(repo, budget=0)
    dfh = repo.method(BASE, "_default_retry_failed_handler", required=False)
    if dfh is None:
        ctx.error(f"{BASE}._default_retry_failed_handler vanished")
        return
    try:
        m3.interp.call(dfh, None if dfh.is_static else m3.h, [m3.h, m3.sock])
        flagged = m3.prop("should_remove_handler")
    except (PyRaise, Undecided) as e:
        raise AnalysisError(f"{BASE}._default_retry_failed_handler: {e}")
    ctx.ob(rule, f"{BASE}._default_retry_failed_handler::flags-removal", flagged is True,
           "the default retry-failed handler does not flag the handler for removal (should_remove_handler stays false): an unanswered request lives for ever", dfh.loc)


def builder_keywords(repo, fi, depth=4, _seen=None):
    """keyword argument names (-> value expressions) that reach a handler constructor from static builder
    `fi`, following `return Cls.other(...)` / `return cls_helper(...)` delegation inside the class"""
    _seen = _seen or set()
    if fi.qual in _seen or depth <= 0:
        return {}
    _seen.add(fi.qual)
    out = {}
    hclasses = {c.short for c in repo.subclasses(BASE)} | {BASE}
    for n in ast.walk(fi.node):
        if not isinstance(n, ast.Call):
            continue
        f = n.func
        name = f.id if isinstance(f, ast.Name) else (f.attr if isinstance(f, ast.Attribute) else None)
        if name in hclasses:
            for k in n.keywords:
                if k.arg:
                    out.setdefault(k.arg, k.value)
        elif isinstance(f, ast.Attribute) and fi.cls is not None:
            tgt = None
            base = ast.unparse(f.value)
            if base.split(".")[-1] in (fi.cls.short, "cls") or base in hclasses:
                c = repo.cls(base.split(".")[-1], required=False) if base.split(".")[-1] != "cls" else fi.cls
                c = c or fi.cls
                tgt = repo.method(c.short, f.attr, required=False)
            if tgt is not None and tgt.is_static:
                for k, v in builder_keywords(repo, tgt, depth - 1, _seen).items():
                    out.setdefault(k, v)
                for k in n.keywords:
                    if k.arg:
                        out.setdefault(k.arg, k.value)
    return out


def config_tables(repo):
    """the complete configuration tables of the package: {class name: {member: value}} for every subclass of the base
    table (active, idle), read from the class bodies"""
    out = {}
    base = repo.cls("_GeckoConfig", False)
    if base is None:
        return out
    for cs in repo.classes().values():
        for c in cs:
            if c is not base and any(k is base for k in repo.mro(c)):
                vals = {}
                for k in reversed(repo.mro(c)):
                    for n_, e_ in k.consts.items():
                        if n_.startswith("__"):
                            continue
                        v_ = repo.try_fold(e_, k.mod, k)
                        if isinstance(v_, (int, float)) and not isinstance(v_, bool):
                            vals[n_] = v_
                out[c.short] = vals
    return out


def distinguishing_table(repo):
    """a configuration in which every member has a value of its own (2, 3, 4 ...): a request built under it shows
    WHICH member each of its settings was taken from"""
    tabs = config_tables(repo)
    members = sorted({m for t in tabs.values() for m in t})
    return {m: 2 + i for i, m in enumerate(members)}


def builder_armed(repo, cname, builder, args, _concrete=False, config=None):
    """Behavioural probe of a request builder: the request is built by interpretation at model time 1000, then asked
      timeout      the largest t (seconds after construction) at which has_timedout is still False, over a grid
      budget       how many times retry(socket) succeeds before it refuses
      flags        whether the failure callback it carries (fired by loop() once the budget is gone and the timeout has
                   passed) flags the request for removal
    -> dict(timeout=float | None, budget=int, flags=bool) - whatever way the keywords reach the constructor."""
    st = {"clock": 1000.0}
    it = Interp(repo, max_depth=12)

    def hook(it_, node, callee, a, k):
        if getattr(callee, "name", "") == "time.monotonic":
            return st["clock"]
        return NotImplemented
    it.call_hook = hook
    if config is not None:
        # the configuration in force while the request is built: {member: value} on an instance of a complete table
        tcls = next((repo.cls(n_, False) for n_ in ("_GeckoIdleConfig", "_GeckoActiveConfig", "_GeckoConfig") if repo.cls(n_, False) is not None), None)
        it.globals = dict(it.globals or {})
        it.globals["GeckoConfig"] = Obj(tcls, dict(config))
    fi = repo.method(cname, builder)
    try:
        it.steps = 0
        h = it.call(fi, None, list(args), {})
        grid = [0.0, 0.5, 1, 2, 3, 3.5, 3.9, 4, 4.1, 5, 8, 10, 20, 60, 121]
        if config is not None:
            grid = sorted({0.0, 0.5} | {k_ + d_ for k_ in range(1, 31) for d_ in (-0.1, 0, 0.1)} | {60, 121})
        last_false = None
        for t in grid:
            st["clock"] = 1000.0 + t
            if it.getattr(h, "has_timedout") is False:
                last_false = t
        if last_false == grid[-1]:
            last_false = None       # never times out: a request built without a (positive) timeout
        sock = Obj(None, {"queue_send": Native(lambda a, k: None, "queue_send")}, name="socket")
        h.attrs["last_destination"] = ("10.0.0.1", 10022)
        budget = 0
        st["clock"] = 1000.0
        for _ in range(40):
            it.steps = 0
            if it.call(repo.method(cname, "retry"), h, [sock]) is True:
                budget += 1
            else:
                break
        st["clock"] += 1000.0
        it.steps = 0
        it.call(repo.method(cname, "loop"), h, [sock])
        flags = it.getattr(h, "should_remove_handler") is True
    except PyRaise as e:
        return {"raises": e.what}
    except Undecided as e:
        if not _concrete:
            # the builder needs concrete field values (a library call on the number, a branch on a field): the arming
            # of the request does not depend on them - probe it with sample values
            from .rules import c04 as _c04
            try:
                fields = _c04._fields_in(args, {})
            except Undecided:
                fields = None
            if fields:
                base = {n: (0x21 + 13 * i) & ((1 << b) - 1) or 1 for i, (n, b) in enumerate(sorted(fields.items()))}
                return builder_armed(repo, cname, builder, _c04._subst(args, base), _concrete=True, config=config)
        raise AnalysisError(f"{cname}.{builder}: cannot probe the built request: {e}")
    return {"timeout": last_false, "budget": budget, "flags": flags}


def wait_model(ctx, repo, rule_timeout, rule_outcome):
    """GeckoUdpProtocolHandler.wait_for_response by interpretation: a request handler built by the base constructor
    (timeout 5 s) that accepts exactly datagrams starting b"MINE"; a real peekable queue (built by its constructor over
    a model FIFO); a model clock that the polling sleep advances by 0.1 s; datagrams arrive / are removed by script.

      own reply at the head            -> True at once, the reply popped and handled once, nothing else popped
      a foreign datagram at the head   -> not popped, not handled, False when the timeout has passed (not earlier)
      empty queue                      -> False when the timeout has passed
      own reply arrives after 3 s      -> True at about 3 s
      foreign traffic keeps changing   -> still False at the timeout: other traffic does not postpone it
    (rule_timeout: when the attempt ends; rule_outcome: what the return value means)"""
    from .absint import ClassRef
    QUEUE = "AsyncPeekableQueue"
    T = 5
    OWN = (b"MINE-reply", ("10.0.0.5", 10022))
    w = repo.method(BASE, "wait_for_response")

    def run(script, timeout=T):
        """script: {poll number: [("put", datagram) | ("drop-head",)]}; -> (result, seconds, handled, fifo, polls)"""
        it = Interp(repo, max_depth=10)
        st = {"clock": 100.0, "polls": 0}
        handled = []
        try:
            q = it.apply(ClassRef(repo.cls(QUEUE)), [], {})
        except (PyRaise, Undecided) as e:
            raise AnalysisError(f"{QUEUE}() cannot be constructed by interpretation: {e}")
        fifo = q.attrs["_queue"] if isinstance(q.attrs.get("_queue"), list) else []
        q.attrs["_queue"] = fifo
        q.attrs["qsize"] = Native(lambda a, k: len(fifo), "qsize")
        q.attrs["empty"] = Native(lambda a, k: not fifo, "empty")
        q.attrs["get_nowait"] = Native(lambda a, k: fifo.pop(0), "get_nowait")
        q.attrs["put_nowait"] = Native(lambda a, k: fifo.append(a[0]), "put_nowait")
        proto = Obj(None, {"queue": q, "_queue": q}, name="protocol")

        def apply_script():
            for op in script.get(st["polls"], ()):
                if op[0] == "put":
                    fifo.append(op[1])
                elif op[0] == "drop-head" and fifo:
                    it.call(repo.method(QUEUE, "pop"), q, [])

        def hook(it_, node, callee, args, kwargs):
            nm = getattr(callee, "name", "")
            if nm == "time.monotonic":
                return st["clock"]
            if nm == "asyncio.sleep":
                st["polls"] += 1
                if st["polls"] > 400:
                    raise PyRaise("model: wait_for_response did not return within 40 s of model time")
                st["clock"] += 0.1
                apply_script()
                return None
            return NotImplemented
        it.call_hook = hook
        try:
            h = it.apply(ClassRef(repo.cls(BASE)), [], {"timeout": timeout, "retry_count": 2})
        except (PyRaise, Undecided) as e:
            raise AnalysisError(f"{BASE}(timeout=, retry_count=) cannot be constructed by interpretation: {e}")
        h.attrs["can_handle"] = Native(lambda a, k: bytes(a[0]).startswith(b"MINE"), "can_handle")
        h.attrs["async_handle"] = Native(lambda a, k: handled.append((a[0], a[1])), "async_handle")
        h.attrs["handle"] = Native(lambda a, k: handled.append((a[0], a[1])), "handle")
        apply_script()
        try:
            it.steps = 0
            r = it.call(w, h, [proto])
        except PyRaise as e:
            r = f"raises {e.what}"
        except Undecided as e:
            raise AnalysisError(f"{w.qual} on the model queue: {e}")
        return r, round(st["clock"] - 100.0, 2), handled, list(fifo), st["polls"]

    F1, F2 = (b"OTHER-1", ("10.0.0.5", 10022)), (b"OTHER-2", ("10.0.0.5", 10022))
    r, t, handled, left, _p = run({0: [("put", OWN), ("put", F1)]})
    ctx.ob(rule_outcome, f"{w.qual}::own-reply-at-head", r is True and handled == [OWN] and left == [F1] and t <= 0.2,
           f"{w.qual} with its own reply at the head of the queue: returns {r!r} after {t}s, handled {handled}, queue afterwards {left} - expected True at once, the reply popped and handled once, the datagram behind it untouched", w.loc,
           sample={"rule": rule_outcome, "case": "own-reply-at-head", "result": str(r), "seconds": t})
    r, t, handled, left, _p = run({0: [("put", F1), ("put", OWN)]})
    ctx.ob(rule_outcome, f"{w.qual}::foreign-datagram-at-head", r is False and not handled and left == [F1, OWN],
           f"{w.qual} with another handler's datagram at the head: returns {r!r}, handled {handled}, queue afterwards {left} - expected False with nothing popped (True only after popping and handling its own reply)", w.loc)
    ctx.ob(rule_timeout, f"{w.qual}::foreign-datagram-at-head::times-out-on-time", r is False and T <= t <= T + 0.3,
           f"{w.qual} blocked by a foreign datagram returns {r!r} after {t}s of model time, expected False just after the {T}s timeout", w.loc)
    r, t, handled, left, _p = run({})
    ctx.ob(rule_timeout, f"{w.qual}::empty-queue::times-out-on-time", r is False and T <= t <= T + 0.3 and not handled,
           f"{w.qual} on an empty queue returns {r!r} after {t}s, expected False just after the {T}s timeout (not earlier: the reply may still come; not later: get() holds the request lock)", w.loc,
           sample={"rule": rule_timeout, "case": "empty-queue", "result": str(r), "seconds": t})
    r, t, handled, left, _p = run({0: [("put", F1)], 20: [("drop-head",)], 30: [("put", OWN)]})
    ctx.ob(rule_outcome, f"{w.qual}::own-reply-arrives-later", r is True and handled == [OWN] and 2.9 <= t <= 3.3 and not left,
           f"{w.qual}: a foreign datagram is discarded after 2 s and the own reply arrives after 3 s: returns {r!r} after {t}s, handled {handled}, queue {left} - expected True at about 3 s", w.loc)
    churn = {0: [("put", F1)]}
    for k in range(5, 100, 5):
        churn[k] = [("drop-head",), ("put", F2 if (k // 5) % 2 else F1)]
    r, t, handled, left, _p = run(churn)
    ctx.ob(rule_timeout, f"{w.qual}::timeout-restarts-only-on-own-reply", r is False and T <= t <= T + 0.3 and not handled,
           f"{w.qual} while unrelated datagrams keep arriving and leaving (a new head every 0.5 s): returns {r!r} after {t}s - expected False just after the {T}s timeout: "
           f"other traffic must not postpone it, else get() neither retransmits nor fails and keeps the request lock", w.loc)
    r, t, handled, left, polls = run({}, timeout=0)
    ctx.ob(rule_timeout, f"{w.qual}::positive-timeout", (isinstance(r, str) and "AssertionError" in r) or (r is False and polls <= 2),
           f"{w.qual} on a handler built with timeout 0: {r!r} after {polls} poll(s) - a request without a positive timeout must be refused (or give up at once), not poll for ever", w.loc)
    ctx.count(f"{rule_timeout}:wait_for_response scenarios interpreted", 6)


def armed_under_every_table(ctx, repo, rule, only=None, why=""):
    """Every request builder, interpreted under each complete configuration table (idle, active) and under a table whose
    members all differ: the request it builds has a POSITIVE timeout (wait_for_response asserts it; a zero timeout
    means the answer is never waited for), and - where the builder sets a retry budget - the budget is the table's
    PROTOCOL_RETRY_COUNT, not some other member that happens to be equal in one table."""
    from .rules import c04 as _c04
    tabs = dict(config_tables(repo))
    if len(tabs) < 2:
        raise AnalysisError("configuration tables (subclasses of _GeckoConfig) not found")
    tabs["every-member-different"] = distinguishing_table(repo)
    seen = set()
    n = 0
    for cname_, builder_, args_, _exp, _desc in _c04.message_table():
        if builder_ not in ("request", "full_request", "set", "set_value", "keypress") or (cname_, builder_) in seen:
            continue
        if only is not None and cname_ not in only:
            continue
        seen.add((cname_, builder_))
        m = repo.method(cname_, builder_)
        base_pr = builder_armed(repo, cname_, builder_, args_)
        for tname, tab in sorted(tabs.items()):
            n += 1
            pr = builder_armed(repo, cname_, builder_, args_, config=tab)
            N_ = tab.get("PROTOCOL_RETRY_COUNT")
            ok_t = "raises" not in pr and pr["timeout"] is not None and pr["timeout"] > 0
            ctx.ob(rule, f"{m.qual}::{tname}::positive-timeout", ok_t,
                   f"{m.qual} under the {tname} table builds a request that {'raises ' + pr['raises'] if 'raises' in pr else 'times out after ' + str(pr.get('timeout')) + ' s'}: "
                   f"a request without a positive timeout fails the assertion of wait_for_response (the loop that sent it ends with the exception) or is never waited for{why}", m.loc,
                   sample={"rule": rule, "builder": m.qual, "table": tname, "probe": {k_: v_ for k_, v_ in pr.items()}})
            if "raises" not in pr and "raises" not in base_pr and base_pr["budget"] >= 1:
                ctx.ob(rule, f"{m.qual}::{tname}::configured-budget", pr["budget"] == N_,
                       f"{m.qual} under the {tname} table builds a request that can be retransmitted {pr['budget']} times; the table's PROTOCOL_RETRY_COUNT is {N_}: "
                       f"the step gives up after a number of losses the configured budget covers", m.loc)
    ctx.count(f"{rule}:builder x table probes", n)
    return n
