"""Known finding C10.R3 (GeckoAsyncSpa._connect::reset-during::create_datagram_endpoint#1), demonstrated on the real classes: a disconnect()
while _connect awaits create_datagram_endpoint leaves the endpoint open and seven SPA tasks running.
usage: /venv/bin/python findings/C10_reset_during_endpoint_creation.py /repo  (exit 1 = leak shown)"""
import asyncio, sys
sys.path.insert(0, sys.argv[1] + "/src")
from geckolib.async_spa import GeckoAsyncSpa
from geckolib.async_tasks import AsyncTasks
from geckolib.async_spa_descriptor import GeckoAsyncSpaDescriptor

class T:
    closed = 0
    def sendto(self, *a): pass
    def is_closing(self): return self.closed > 0
    def close(self): self.closed += 1

async def main():
    loop = asyncio.get_running_loop()
    tr = T()
    async def fake_endpoint(factory, **kw):
        await asyncio.sleep(0.05)            # the real call suspends too
        p = factory(); p.connection_made(tr); return tr, p
    loop.create_datagram_endpoint = fake_endpoint
    events = []
    async def on_event(ev, **kw): events.append(ev.name)
    tm = AsyncTasks()
    if True:
        d = GeckoAsyncSpaDescriptor(b"SPA-ID", "My spa", ("10.0.0.5", 10022))
        spa = GeckoAsyncSpa(b"IOS-CLIENT", d, tm, on_event)
        t = asyncio.create_task(spa.connect())
        await asyncio.sleep(0.01)
        await spa.disconnect()               # the reset lands while _connect waits for its endpoint
        await asyncio.sleep(0.5)
        alive = sorted(x.get_name() for x in tm._tasks if not x.done() and x.get_name().startswith("SPA:"))
        print("transport closed:", tr.closed, "SPA tasks alive after the reset:", alive)
        t.cancel()
        tm.cancel_key_tasks("SPA")
        bad = tr.closed == 0 or bool(alive)
    sys.exit(1 if bad else 0)
asyncio.run(main())
