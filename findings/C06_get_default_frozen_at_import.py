"""Known finding C06.R9 (GeckoAsyncUdpProtocol.get::default::retry_count), demonstrated on the real class.
usage: /venv/bin/python findings/C06_get_default_frozen_at_import.py /repo   -> prints attempts made (10) for a configured budget of 2"""
import asyncio, sys
sys.path.insert(0, sys.argv[1] + "/src")
from geckolib.config import GeckoConfig
from geckolib.driver.async_udp_protocol import GeckoAsyncUdpProtocol


async def main():
    GeckoConfig.PROTOCOL_RETRY_COUNT = 2
    GeckoConfig.PAUSE_BETWEEN_RETRIES_IN_SECONDS = 0
    p = GeckoAsyncUdpProtocol(lambda: None, ("1.1.1.1", 1))

    class T:
        def sendto(self, *a): pass
        def is_closing(self): return False
    p.connection_made(T())
    n = [0]

    class R:
        send_bytes = b"x"; last_destination = None
        async def wait_for_response(self, proto): n[0] += 1; return False
    await p.get(lambda: R())
    print("configured", GeckoConfig.PROTOCOL_RETRY_COUNT, "attempts", n[0])
    sys.exit(0 if n[0] == 2 else 1)
asyncio.run(main())
