"""C20 (fixed by abd01bc): an exception from a handler's loop() - its retry-failed callback is client code -
ended GeckoUdpSocket's thread while isopen still read True.
usage: /venv/bin/python findings/C20_loop_exception_ends_engine_thread.py <tree>   (exit 1 = the thread died)
On the tree before abd01bc: exit 1; on the repaired tree: exit 0."""
import sys, time, threading
sys.path.insert(0, sys.argv[1] + "/src")
from geckolib.driver.udp_socket import GeckoUdpSocket
from geckolib.driver.udp_protocol_handler import GeckoUdpProtocolHandler

class FakeSock:
    def settimeout(self, t): pass
    def recvfrom(self, n):
        time.sleep(0.01)
        import socket
        raise socket.timeout()
    def sendto(self, b, d): pass
    def close(self): pass

class H(GeckoUdpProtocolHandler):
    def can_handle(self, b, s): return False
    def handle(self, b, s): pass
    @property
    def send_bytes(self): return b"X"

def boom(handler, sock):
    raise RuntimeError("client callback bug")

s = GeckoUdpSocket(FakeSock())
s.open()
time.sleep(0.05)
h = H(timeout=0.05, retry_count=0, on_retry_failed=boom)
s.add_receive_handler(h)
time.sleep(0.4)
alive = s._thread.is_alive() if hasattr(s, "_thread") else None
print("engine thread alive:", alive, "isopen:", s.isopen)
s.close() if alive else None
sys.exit(0 if alive else 1)
